#!/venv/bin/python
"""Pretty-print a replay file (programs and plan)."""
import json
import sys


def fmt_operand(o):
    if isinstance(o, int):
        return 'r%d' % o
    for k in ('c', 'ci', 'cn'):
        if k in o:
            return '%s(%r)' % (k, o[k])
    return 'array%s' % json.dumps(o['ca'])


def fmt_instr(n0, j, ins):
    extra = {k: v for k, v in ins.items() if k not in ('op', 'a', 'sh', 't', 'p')}
    return 'r%-2d = %-9s %s %s -> %s%s' % (n0 + j, ins['op'], ', '.join(fmt_operand(o) for o in ins['a']),
                                          json.dumps(extra) if extra else '', ins['sh'],
                                          '' if ins.get('t', True) else '  [non-T]')


def show(rp):
    run = rp['run'] if 'run' in rp else rp
    print('property=%s expected=%s' % (rp.get('property'), json.dumps(rp.get('expected'))[:500]))
    print('config: %s' % json.dumps(run.get('config')))
    for i, c in enumerate(run['clients']):
        p = c['program']
        print('client %d: family=%s n_in=%s outputs=%s rec=%s' % (i, p['family'], p['n_in'], p['outputs'],
                                                                   json.dumps(c['rec'])[:200]))
        for j, ins in enumerate(p['instrs']):
            print('   ' + fmt_instr(len(p['n_in']), j, ins))
    for s in run['plan']:
        d = dict(s)
        if d['op'] == 'fwd':
            d['inputs'] = [{k: (v if k != 'val' else v) for k, v in i.items()} for i in d['inputs']]
        print('  step %s' % json.dumps(d)[:600])


if __name__ == '__main__':
    with open(sys.argv[1]) as f:
        show(json.load(f))
