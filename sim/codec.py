"""Byte-exact, JSON-able encoding of the values that cross the API boundary."""
import hashlib
import json

import numpy


def _canon(a):
    a = numpy.array(a, copy=True, order='C')
    if a.dtype.kind in 'fc':
        m = numpy.isnan(a)
        if m.any():
            a[m] = numpy.nan
    return a


def enc(v):
    """Deep-copying encoder.  ndarray / numpy scalar / float -> 'nd';
    UTPM -> 'utpm'; tuple / list -> 'seq'; None -> None; anything else -> its
    type name (never equal to a numeric encoding)."""
    if v is None:
        return None
    if isinstance(v, (tuple, list)):
        return {'k': 'seq', 'v': [enc(e) for e in v]}
    if isinstance(v, (numpy.ndarray, numpy.generic, float, int, complex)):
        a = _canon(numpy.asarray(v))
        if a.dtype == object:
            return {'k': 'obj', 'r': repr(a.tolist())}
        return {'k': 'nd', 'sh': list(a.shape), 'dt': a.dtype.str, 'hx': a.tobytes().hex()}
    data = getattr(v, 'data', None)
    if type(v).__name__ in ('UTPM', 'UTP') and isinstance(data, numpy.ndarray):
        a = _canon(data)
        return {'k': 'utpm', 'sh': list(a.shape), 'dt': a.dtype.str, 'hx': a.tobytes().hex()}
    return {'k': 'other', 'r': type(v).__name__}


def dec(e, algopy=None):
    if e is None:
        return None
    k = e['k']
    if k == 'seq':
        return [dec(x, algopy) for x in e['v']]
    if k in ('nd', 'utpm'):
        a = numpy.frombuffer(bytes.fromhex(e['hx']), dtype=numpy.dtype(e['dt'])).reshape(e['sh']).copy()
        if k == 'nd':
            return a
        return algopy.UTPM(a)
    raise ValueError('cannot decode %r' % (k,))


def enc_float_array(a):
    """Readable form for plans/replay files: nested lists of floats (repr
    round-trips exactly through json)."""
    return numpy.asarray(a, dtype=float).tolist()


def same(a, b):
    return a == b


def close(a, b, rtol=1e-8, atol=0.0):
    """Tolerance comparison of two encodings of the same kind and shape
    (M-truth only)."""
    if a is None or b is None:
        return a is b
    if a['k'] != b['k']:
        return False
    if a['k'] == 'seq':
        return len(a['v']) == len(b['v']) and all(close(x, y, rtol, atol) for x, y in zip(a['v'], b['v']))
    if a['k'] not in ('nd', 'utpm'):
        return a == b
    if a['sh'] != b['sh']:
        return False
    x = numpy.frombuffer(bytes.fromhex(a['hx']), dtype=numpy.dtype(a['dt']))
    y = numpy.frombuffer(bytes.fromhex(b['hx']), dtype=numpy.dtype(b['dt']))
    if x.size == 0:
        return True
    if not (numpy.all(numpy.isfinite(x)) and numpy.all(numpy.isfinite(y))):
        return False
    scale = max(1.0, float(numpy.max(numpy.abs(y))))
    return bool(numpy.max(numpy.abs(x - y)) <= max(rtol * scale, atol))


def to_array(e):
    return numpy.frombuffer(bytes.fromhex(e['hx']), dtype=numpy.dtype(e['dt'])).reshape(e['sh']).copy()


def short(e):
    """Human-readable summary of an encoding for reports."""
    if e is None:
        return 'None'
    if e['k'] == 'seq':
        return '[' + ', '.join(short(x) for x in e['v']) + ']'
    if e['k'] in ('nd', 'utpm'):
        a = to_array(e)
        return '%s%s %s' % (e['k'], tuple(e['sh']), numpy.array2string(a.ravel()[:8], precision=6))
    return repr(e)


def digest(obj):
    return hashlib.sha256(json.dumps(obj, sort_keys=True, separators=(',', ':')).encode()).hexdigest()
