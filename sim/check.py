#!/venv/bin/python
"""Seeded search over simulated histories for one property.

  check.py --property C04|C05|C06 --tier quick|thorough [--runs N] [--jobs J]

exit 0: every explored run clean (KNOWN-FINDING lines allowed)
exit 1: at least one unlisted violation (VIOLATION property=<id> replay=<path>)
exit 2: harness error (wrong tree imported, nondeterminism, dead worker, timeout)
"""
import argparse
import concurrent.futures
import json
import multiprocessing
import os
import subprocess
import sys
import time
import traceback

sys.path.insert(0, os.path.dirname(os.path.dirname(os.path.abspath(__file__))))
from sim import env  # noqa: E402

TIERS = {
    'quick': {'runs': 8000, 'runs_C06': 6000, 'det': 64, 'min_budget': 200},
    'thorough': {'runs': 200000, 'det': 2000, 'min_budget': 400},
}
PROBE_NAMES = [
    'evaluation while another graph is recording',
    'evaluation while its own graph is (still) the recording target',
    'second or later reverse sweep on one forward evaluation',
    'reverse sweep right after a reverse sweep that did not complete',
    'evaluation right after a forward evaluation that did not complete',
    'call right after a call in which an injected fault fired',
    'forward evaluation after reverse sweeps',
    'call after operations on another graph since this graph\'s previous call',
    'forward evaluation at another kind/D/P than the previous one',
    'replay with a kind/D/P other than the recording one',
    'driver on a graph recorded with a Taylor polynomial',
    'recording resumed after another graph recorded in between',
    'recording resumed with trace_on',
    'graph constructed while another graph is being recorded',
    'operations on traced operands with recording off',
    'trace_off through a graph that is not recording',
]
MAX_MINIMISE = 24
MAX_REPLAYS = 200


def _init_worker():
    # own process group: the parent can kill a worker together with the S/R
    # children (and their dry-run grandchildren) it forked
    os.setpgrp()
    env.import_algopy()


def _kill_pool(ex):
    import signal
    for p in list(getattr(ex, '_processes', {}).values()):
        try:
            os.killpg(p.pid, signal.SIGKILL)
        except (ProcessLookupError, PermissionError):
            pass


def work_chunk(focus, props, seeds, want_samples):
    from sim import runner, summary
    out = []
    for seed in seeds:
        try:
            res = runner.simulate_seed(focus, seed, props)
        except env.HarnessError as e:
            out.append({'seed': seed, 'harness_error': str(e)[-3000:]})
            continue
        except Exception:
            out.append({'seed': seed, 'harness_error': traceback.format_exc()[-3000:]})
            continue
        s = summary.summarise(res['run'], res)
        s['verdicts'] = [v for v in res['verdicts'] if v['property'] in props]
        if s['verdicts'] or seed in want_samples:
            s['run'] = res['run']
        out.append(s)
    return out


def minimise_task(run, verdict, props, budget):
    from sim import minimise
    try:
        small, final, used = minimise.minimise(run, verdict, props, budget)
        return {'run': small, 'verdict': final, 'tests': used}
    except env.HarnessError as e:
        return {'harness_error': str(e)[-3000:]}


def digests_for(focus, seeds, jobs):
    ctx = multiprocessing.get_context('fork')
    out = {}
    with concurrent.futures.ProcessPoolExecutor(max_workers=jobs, mp_context=ctx, initializer=_init_worker) as ex:
        chunks = [seeds[i::jobs * 2] for i in range(jobs * 2)]
        futs = [ex.submit(work_chunk, focus, [focus], ch, ()) for ch in chunks if ch]
        for f in futs:
            for s in f.result():
                if 'harness_error' in s:
                    raise env.HarnessError('seed %d: %s' % (s['seed'], s['harness_error']))
                out[s['seed']] = s['digest']
    return out


def determinism_selftest(focus, seeds, jobs):
    """Same seeds: two worker counts in this interpreter, plus a fresh
    interpreter under another PYTHONHASHSEED.  Any difference is a harness
    failure."""
    a = digests_for(focus, seeds, max(2, jobs))
    b = digests_for(focus, seeds, max(1, jobs // 4))
    cmd = [sys.executable, os.path.abspath(__file__), '--property', focus, '--digests-only',
           '--seed-list', ','.join(str(s) for s in seeds), '--jobs', str(max(2, jobs // 2))]
    e = dict(os.environ)
    e['VERIF_HASHSEED'] = '12345'
    e.pop('VERIF_REEXEC', None)
    e.pop('PYTHONHASHSEED', None)
    p = subprocess.run(cmd, env=e, capture_output=True, text=True, timeout=3600)
    if p.returncode != 0:
        raise env.HarnessError('fresh-interpreter digest run failed: %s' % p.stderr[-2000:])
    c = {int(k): v for k, v in json.loads(p.stdout.strip().splitlines()[-1]).items()}
    bad = [s for s in seeds if not (a[s] == b[s] == c.get(s))]
    return {'seeds': len(seeds), 'mismatches': bad, 'worker_counts': [max(2, jobs), max(1, jobs // 4)],
            'fresh_interpreter_hashseed': 12345}


def load_known():
    path = os.path.join(env.VERIF, 'known_findings.json')
    if not os.path.exists(path):
        return []
    with open(path) as f:
        return json.load(f).get('findings', [])


def match_known(known, verdict, run, all_verdicts):
    fam = run['clients'][verdict['c']]['program']['family']
    for k in known:
        if k.get('status') != 'open' or k['property'] != verdict['property']:
            continue
        if verdict['oracle'] not in k['oracles']:
            continue
        if k.get('family') and k['family'] != fam:
            continue
        if k.get('requires') == 'main_equals_pristine':
            if any(v['seq'] == verdict['seq'] and v['oracle'] in ('O4a', 'O6.drv') for v in all_verdicts):
                continue
        return k
    return None


def main():
    ap = argparse.ArgumentParser()
    ap.add_argument('--property', required=True, choices=['C04', 'C05', 'C06'])
    ap.add_argument('--tier', default=os.environ.get('VERIF_TIER', 'quick'), choices=['quick', 'thorough'])
    ap.add_argument('--runs', type=int)
    ap.add_argument('--jobs', type=int, default=int(os.environ.get('VERIF_JOBS', '0')) or (os.cpu_count() or 4))
    ap.add_argument('--no-selftest', action='store_true')
    ap.add_argument('--selftest-only', action='store_true')
    ap.add_argument('--no-regressions', action='store_true')
    ap.add_argument('--no-minimise', action='store_true')
    ap.add_argument('--digests-only', action='store_true')
    ap.add_argument('--seed-list')
    ap.add_argument('--evidence')
    args = ap.parse_args()
    env.bootstrap()
    t0 = time.time()
    prop = args.property
    try:
        env.import_algopy()
        if args.digests_only:
            seeds = [int(s) for s in args.seed_list.split(',')]
            print(json.dumps(digests_for(prop, seeds, args.jobs)))
            return 0
        return run_check(args, prop, t0)
    except env.HarnessError as e:
        print('HARNESS-ERROR: %s' % e)
        return 2
    except Exception:
        print('HARNESS-ERROR: %s' % traceback.format_exc())
        return 2


def run_check(args, prop, t0):
    tier = TIERS[args.tier]
    n_runs = args.runs or tier.get('runs_' + prop, tier['runs'])
    base = int(os.environ.get('VERIF_SEED', '0')) * 10000000
    seeds = list(range(base, base + n_runs))
    jobs = args.jobs
    known = load_known()
    print('check property=%s tier=%s seeds=[%d,%d) jobs=%d repo=%s' % (prop, args.tier, base, base + n_runs, jobs,
                                                                      env.REPO))
    sys.stdout.flush()

    det = None
    if not args.no_selftest:
        step = max(1, n_runs // tier['det'])
        det_seeds = seeds[::step][:tier['det']]
        det = determinism_selftest(prop, det_seeds, jobs)
        if det['mismatches']:
            print('HARNESS-ERROR: nondeterministic digests for seeds %s' % det['mismatches'][:10])
            return 2
        print('determinism self-test: %d seeds x 3 executions identical' % det['seeds'])
        sys.stdout.flush()

    if args.selftest_only:
        return 0

    # ---- regression corpus: replays of defects that were repaired ("fixed" entries) and
    # of seeded changes; none may reproduce on the tree under test
    regress_lines, n_regress = ([], 0) if args.no_regressions else replay_regressions(prop)

    ctx = multiprocessing.get_context('fork')
    summaries = []
    sample_seeds = set(seeds[:3])
    t_sim = time.time()
    with concurrent.futures.ProcessPoolExecutor(max_workers=jobs, mp_context=ctx, initializer=_init_worker) as ex:
        chunk = 25
        futs = [ex.submit(work_chunk, prop, [prop], seeds[i:i + chunk], sample_seeds)
                for i in range(0, len(seeds), chunk)]
        for f in concurrent.futures.as_completed(futs):
            part = f.result()
            summaries.extend(part)
            harness = [s for s in part if 'harness_error' in s]
            if harness:
                # fail fast: a run that dies or never returns is not a verdict, and waiting
                # for thousands of them to time out helps nobody
                for s in harness[:5]:
                    print('HARNESS-ERROR: seed %d: %s' % (s['seed'], s['harness_error']))
                sys.stdout.flush()
                _kill_pool(ex)
                os._exit(2)
        sim_wall = time.time() - t_sim
        summaries.sort(key=lambda s: s['seed'])

        # ---- violations -----------------------------------------------------
        viol = []
        for s in summaries:
            for v in s['verdicts']:
                viol.append((s, v))
        groups = {}
        to_min = []
        for s, v in viol:
            fam = s['run']['clients'][v['c']]['program']['family']
            key = (v['oracle'], v['op'], v.get('driver'), fam)
            groups.setdefault(key, []).append((s, v))
        for key in sorted(groups, key=repr):
            print('violation-group oracle=%s op=%s driver=%s family=%s count=%d' % (key + (len(groups[key]),)))
        if not args.no_minimise:
            for key in sorted(groups, key=repr):
                for s, v in groups[key][:2]:
                    if len(to_min) < MAX_MINIMISE and not match_known(known, v, s['run'], s['verdicts']):
                        to_min.append((s, v))
        min_futs = {}
        for s, v in to_min:
            min_futs[(s['seed'], v['seq'], v['oracle'])] = ex.submit(minimise_task, s['run'], v, [prop],
                                                                     tier['min_budget'])
        minimised = {}
        for k, f in min_futs.items():
            r = f.result()
            if 'harness_error' in r:
                print('HARNESS-ERROR: minimiser: %s' % r['harness_error'])
                return 2
            minimised[k] = r

    replay_dir = os.path.join(env.VERIF, 'replays', prop)
    os.makedirs(replay_dir, exist_ok=True)
    for name in os.listdir(replay_dir):
        if name.endswith('.json'):
            os.unlink(os.path.join(replay_dir, name))
    n_unlisted = 0
    n_known = {}
    written = 0
    lines = []
    unlisted = []
    for s, v in viol:
        k = match_known(known, v, s['run'], s['verdicts'])
        if k is not None:
            n_known[k['id']] = n_known.get(k['id'], 0) + 1
            continue
        n_unlisted += 1
        unlisted.append((s, v))

    def group_key(s, v):
        return (v['oracle'], v['op'], v.get('driver'), s['run']['clients'][v['c']]['program']['family'])
    # minimised violations get their replay files first, then the others up to the cap;
    # beyond the cap a violation points at the replay of its group's representative
    unlisted.sort(key=lambda sv: (0 if (sv[0]['seed'], sv[1]['seq'], sv[1]['oracle']) in minimised else 1,
                                  sv[0]['seed'], sv[1]['seq']))
    representative = {}
    for s, v in unlisted:
        key = (s['seed'], v['seq'], v['oracle'])
        run = s['run']
        verdict = v
        m = minimised.get(key)
        note = 'unminimised'
        if m is not None and m['verdict'] is not None:
            run, verdict, note = m['run'], m['verdict'], 'minimised in %d tests' % m['tests']
        g = group_key(s, v)
        if written < MAX_REPLAYS or g not in representative:
            path = os.path.join(replay_dir, 'seed%d_seq%d_%s.json' % (s['seed'], v['seq'], v['oracle'].replace('.', '_')))
            with open(path, 'w') as f:
                json.dump({'version': 1, 'property': prop, 'expected': verdict, 'note': note, 'run': run}, f)
            written += 1
            representative.setdefault(g, path)
        else:
            path = representative[g]
            note = 'same group as this replay; own replay not written (cap %d)' % MAX_REPLAYS
        lines.append('VIOLATION property=%s replay=%s oracle=%s seed=%d family=%s %s :: %s' % (
            prop, path, v['oracle'], s['seed'], g[3], note,
            ((('[%s] ' % verdict['label']) if verdict.get('label') else '') +
             (verdict.get('detail') or ('got %s want %s' % (verdict.get('got'), verdict.get('want')))))[:300]))
    for k in known:
        if k.get('status') == 'open' and k['property'] == prop:
            print('KNOWN-FINDING: property=%s %s :: %s (seen %d times in this run)' % (
                prop, k['id'], k['what'], n_known.get(k['id'], 0)))
    all_lines = regress_lines + lines
    for ln in all_lines[:80]:
        print(ln)
    if len(all_lines) > 80:
        print('... and %d more VIOLATION lines of the groups listed above (not printed)' % (len(all_lines) - 80))
    n_unlisted += len(regress_lines)

    evidence = build_evidence(prop, args.tier, base, summaries, det, time.time() - t0, sim_wall, n_unlisted, n_known,
                              jobs)
    evidence['coverage']['regression_replays'] = n_regress
    path = args.evidence or os.path.join(env.VERIF, 'evidence', '%s.json' % prop)
    os.makedirs(os.path.dirname(path), exist_ok=True)
    with open(path, 'w') as f:
        json.dump(evidence, f, indent=1, sort_keys=True)
    cov = evidence['coverage']
    print('runs=%d distinct_nontrivial=%d steps=%d transitions=%d faults_fired=%s violations=%d wall=%.1fs (%.0f runs/h)' % (
        cov['evaluations'], cov['distinct_nontrivial'], cov['logical_steps'], cov['abstract_transitions_reached'],
        cov['faults']['fired'], n_unlisted, evidence['wall_s'], cov['runs_per_hour']))
    return 1 if n_unlisted else 0


def replay_regressions(prop):
    from sim import minimise, runner
    d = os.path.join(env.VERIF, 'regressions')
    lines = []
    n = 0
    if not os.path.isdir(d):
        return lines, n
    for name in sorted(os.listdir(d)):
        if not name.endswith('.json'):
            continue
        path = os.path.join(d, name)
        with open(path) as f:
            rp = json.load(f)
        if rp.get('property') != prop:
            continue
        n += 1
        res = runner.simulate(rp['run'], [prop])
        if res['invalid']:
            raise env.HarnessError('regression %s: plan invalid: %s' % (name, res['invalid']))
        sig = minimise.signature(rp['expected'], rp['run'])
        for v in res['verdicts']:
            if minimise.signature(v, rp['run']) == sig:
                lines.append('VIOLATION property=%s replay=%s oracle=%s regression :: %s' % (
                    prop, path, v['oracle'], (v.get('detail') or ('got %s want %s' % (v.get('got'), v.get('want'))))[:300]))
                break
    print('regression corpus: %d replays, %d reproduce' % (n, len(lines)))
    return lines, n


def build_evidence(prop, tier, base, summaries, det, wall, sim_wall, n_viol, n_known, jobs):
    ops, armed, fired, natural, stats, modes, fams, probes, feats = {}, {}, {}, {}, {}, {}, {}, {}, {}
    transitions = set()
    digests = set()
    steps = 0
    invalid = 0
    mutation = 0

    def acc(dst, src):
        for k, v in src.items():
            dst[k] = dst.get(k, 0) + v
    for s in summaries:
        acc(ops, s['ops'])
        acc(armed, s['armed'])
        acc(fired, s['fired'])
        acc(natural, s['natural'])
        acc(stats, s['stats'])
        acc(probes, s.get('probes', {}))
        modes[s['mode']] = modes.get(s['mode'], 0) + 1
        for f in s['families']:
            fams[f] = fams.get(f, 0) + 1
        for fl in s.get('features', []):
            for f in fl:
                feats[f] = feats.get(f, 0) + 1
        transitions.update(s['transitions'])
        steps += s['steps']
        mutation += s['caller_owned_mutation']
        if s['invalid']:
            invalid += 1
        if s['nontrivial'] and s['digest']:
            digests.add(s['digest'])
    samples = []
    for s in summaries:
        if 'run' in s and len(samples) < 3:
            r = s['run']
            samples.append({
                'seed': r['seed'], 'config': r['config'],
                'programs': [{'family': c['program']['family'], 'n_instr': len(c['program']['instrs']),
                              'first_instrs': c['program']['instrs'][:6], 'rec_kind': c['rec']['kind']}
                             for c in r['clients']],
                'plan': [_brief_step(st) for st in r['plan'][:40]],
            })
    checked = {k.split(':', 1)[1]: v for k, v in stats.items() if k.startswith('checked:')}
    unchecked = {k.split(':', 1)[1]: v for k, v in stats.items() if k.startswith('unchecked:')}
    other = {k: v for k, v in stats.items() if not k.startswith(('checked:', 'unchecked:'))}
    n = len(summaries)
    return {
        'property_id': prop,
        'tier': tier,
        'seed': base,
        'level': 'exploration',
        'wall_s': round(wall, 2),
        'violations': n_viol,
        'coverage': {
            'evaluations': n,
            'distinct_nontrivial': len(digests),
            'rule': ('one evaluation = one simulated run: a seed-determined schedule of recording slices, forward '
                     'evaluations, reverse sweeps, driver calls and faults over 1-3 graphs, executed against the real '
                     'algopy in a forked child and judged by reference models in a second pristine child. '
                     'distinct = distinct SHA-256 digests of the full event log (ops, concrete arguments, outcome '
                     'bytes, verdicts); non-trivial = at least one checked call had >= 2 earlier calls on the same '
                     'graph, or an operation of another graph since this graph\'s previous call, or a fired fault '
                     'earlier in the run.'),
            'samples': samples,
            'seed_range': [base, base + n],
            'runs_per_hour': round(n / max(sim_wall, 1e-9) * 3600.0),
            'worker_processes': jobs,
            'logical_steps': steps,
            'simulated_time': 'not applicable: the system under test has no clock; time is the global event sequence number',
            'operations_by_kind': ops,
            'run_modes': modes,
            'program_families': fams,
            'programs_containing_operation': feats,
            'oracle_checks': checked,
            'calls_unchecked_by_relaxation': unchecked,
            'other_counters': other,
            'faults': {'armed': armed, 'fired': fired, 'natural': natural},
            'situation_probes': {k: probes.get(k, 0) for k in PROBE_NAMES},
            'situation_probes_at_zero': [k for k in PROBE_NAMES if not probes.get(k)],
            'abstract_transitions_reached': len(transitions),
            'abstract_transitions': sorted(transitions) if len(transitions) <= 400 else sorted(transitions)[:400],
            'invalid_plans': invalid,
            'caller_owned_mutation_observed': mutation,
            'known_findings_seen': n_known,
            'determinism_selftest': det,
            'real_vs_stub': ('real: algopy.tracer, algopy.utpm, globalfuncs, linalg, special, fft, NumPy, SciPy '
                             '(imported from the repository working tree). stubs: none. interposed: a pass-through '
                             'wrapper on Function.pushforward/pullback (only in runs that arm a node fault) and a '
                             'sys.settrace line hook during armed calls.'),
        },
        'assumptions': [
            'bit-identical results of identical NumPy/LAPACK call sequences across processes on this host '
            '(calibrated by the determinism self-test, OPENBLAS_NUM_THREADS=1)',
            'programs are straight-line, N<=4 inputs, <=~40 instructions, D<=5, P<=4, <=3 graphs, <=60 steps',
            'no thread-level pre-emption inside a call (no property grants concurrent use)',
        ],
    }


def _brief_step(st):
    out = {k: v for k, v in st.items() if k in ('seq', 'op', 'c', 'k', 'begin', 'end', 'name', 'api', 'fault',
                                                  'trace_off', 'rep', 'bad', 'errstate', 'wrong_len')}
    if st['op'] == 'fwd':
        out['inputs'] = [{k: i[k] for k in ('slot', 'mode', 'kind', 'D', 'P')} for i in st['inputs']]
    return out


if __name__ == '__main__':
    sys.exit(main())
