"""Shrink a failing run while the same (property, oracle, call kind) fails."""
import copy

from . import runner


def signature(v, run):
    step = [s for s in run['plan'] if s['seq'] == v['seq']]
    name = step[0].get('name') if step else None
    return (v['property'], v['oracle'], v['op'], name)


def fails_same(run, sig, props, budget):
    if budget[0] <= 0:
        return None
    budget[0] -= 1
    res = runner.simulate(run, props)
    if res['invalid']:
        return None
    for v in res['verdicts']:
        if signature(v, run) == sig:
            return v
    return None


def renumber(run):
    for i, s in enumerate(run['plan']):
        s['seq'] = i
    return run


def only_client(run, c):
    new = copy.deepcopy(run)
    new['clients'] = [new['clients'][c]]
    new['plan'] = [s for s in new['plan'] if s['c'] == c]
    for s in new['plan']:
        s['c'] = 0
    return renumber(new)


def without_steps(run, drop):
    new = copy.deepcopy(run)
    new['plan'] = [s for i, s in enumerate(new['plan']) if i not in drop]
    return renumber(new)


def ddmin_steps(run, sig, props, budget):
    n = 2
    plan = run['plan']
    while len(plan) >= 2 and budget[0] > 0:
        size = max(1, len(plan) // n)
        chunks = [set(range(i, min(i + size, len(plan)))) for i in range(0, len(plan), size)]
        reduced = False
        for ch in chunks:
            cand = without_steps(run, ch)
            if fails_same(cand, sig, props, budget):
                run = cand
                plan = run['plan']
                n = max(n - 1, 2)
                reduced = True
                break
        if not reduced:
            if size == 1:
                break
            n = min(len(plan), n * 2)
    return run


# ---- program simplification ---------------------------------------------------

def _reindex(prog, keep):
    """Keep only the instructions whose index is in `keep` (sorted); returns a
    new program or None if something kept refers to something dropped."""
    n0 = len(prog['n_in'])
    mapping = {i: i for i in range(n0)}
    new_instrs = []
    for j, ins in enumerate(prog['instrs']):
        if j not in keep:
            continue
        ins = copy.deepcopy(ins)
        a = []
        for o in ins['a']:
            if isinstance(o, int):
                if o not in mapping:
                    return None
                a.append(mapping[o])
            else:
                a.append(o)
        ins['a'] = a
        mapping[n0 + j] = n0 + len(new_instrs)
        new_instrs.append(ins)
    outs = []
    for o in prog['outputs']:
        if o not in mapping:
            return None
        outs.append(mapping[o])
    new = copy.deepcopy(prog)
    new['instrs'] = new_instrs
    new['outputs'] = outs
    # the prelude (instructions executed before the inputs are wrapped) shrinks with what is dropped from it
    new['npre'] = sum(1 for j in range(prog.get('npre', 0)) if j in keep)
    reflag(new)
    return new


def reflag(prog):
    prog['truth'] = all(i['t'] for i in prog['instrs'])
    prog['exact'] = all(i['p'] for i in prog['instrs']) and not prog.get('stale_views')
    prog['frozen'] = any(i.get('off') for i in prog['instrs'])


def _trivial(ins):
    """Shape-preserving replacement: a freshly allocated traced buffer."""
    if ins['sh'] is None or ins['op'] in ('zeros', 'ones'):
        return None
    return {'op': 'zeros', 'a': [0], 'shape': list(ins['sh']), 'sh': list(ins['sh']), 't': ins['t'], 'p': ins['p']}


def _fix_rec_steps(run, c):
    """After the program of client c changed length, make the rec steps cover
    it exactly (the last rec step takes the remainder)."""
    n = len(run['clients'][c]['program']['instrs'])
    recs = [s for s in run['plan'] if s['op'] == 'rec' and s['c'] == c]
    done = 0
    for i, s in enumerate(recs):
        if i == len(recs) - 1:
            s['k'] = n - done
        else:
            s['k'] = max(0, min(s['k'], n - done))
        done += s['k']
    for s in run['plan']:
        if s['op'] == 'rec_off' and s['c'] == c:
            s['instrs'] = []
    return run


def simplify_program(run, c, sig, props, budget):
    prog = run['clients'][c]['program']
    j = len(prog['instrs']) - 1
    while j >= 0 and budget[0] > 0:
        prog = run['clients'][c]['program']
        if j >= len(prog['instrs']):
            j = len(prog['instrs']) - 1
            continue
        # (a) drop the instruction altogether
        keep = set(range(len(prog['instrs']))) - {j}
        cand_prog = _reindex(prog, keep)
        done = False
        if cand_prog is not None:
            cand = copy.deepcopy(run)
            cand['clients'][c]['program'] = cand_prog
            _fix_rec_steps(cand, c)
            if fails_same(cand, sig, props, budget):
                run = cand
                done = True
        # (b) replace it by a trivial one of the same shape
        if not done and j >= prog.get('npre', 0):      # (a prelude instruction cannot refer to an input)
            triv = _trivial(prog['instrs'][j])
            if triv is not None:
                cand = copy.deepcopy(run)
                cand['clients'][c]['program']['instrs'][j] = triv
                reflag(cand['clients'][c]['program'])
                if fails_same(cand, sig, props, budget):
                    run = cand
        j -= 1
    return run


def simplify_faults(run, sig, props, budget):
    for i, s in enumerate(run['plan']):
        f = s.get('fault')
        if not f:
            continue
        cand = copy.deepcopy(run)
        cand['plan'][i]['fault'] = None
        if fails_same(cand, sig, props, budget):
            run = cand
            continue
        if f['kind'] == 'line':
            for kind in ('node_rev', 'node_fwd'):
                cand = copy.deepcopy(run)
                cand['plan'][i]['fault'] = dict(f, kind=kind)
                if fails_same(cand, sig, props, budget):
                    run = cand
                    break
    return run


def simplify_numbers(run, c, sig, props, budget):
    """D, P -> 1 for the recording and the calls; drop xlist etc."""
    rec = run['clients'][c]['rec']
    if rec['kind'] == 'utpm' and (rec['D'] > 1 or rec['P'] > 1):
        cand = copy.deepcopy(run)
        r = cand['clients'][c]['rec']
        r['vals'] = [[[list(v[0][0])]] for v in r['vals']]
        r['D'], r['P'] = 1, 1
        if fails_same(cand, sig, props, budget):
            run = cand
    for i, s in enumerate(run['plan']):
        if s['op'] == 'fwd' and s['inputs'] and s['inputs'][0]['kind'] == 'utpm':
            D = s['inputs'][0]['D']
            P = s['inputs'][0]['P']
            for (d, p) in ((1, 1), (min(D, 2), 1), (D, 1)):
                if (d, p) == (D, P):
                    break
                cand = copy.deepcopy(run)
                for inp in cand['plan'][i]['inputs']:
                    inp['val'] = [[list(inp['val'][dd][pp]) for pp in range(p)] for dd in range(d)]
                    inp['D'], inp['P'] = d, p
                    inp['mode'] = 'new'
                if fails_same(cand, sig, props, budget):
                    run = cand
                    break
    return run


def minimise(run, verdict, props, max_tests=250):
    """Returns (minimised run, verdict on it, tests used)."""
    budget = [max_tests]
    sig = signature(verdict, run)
    best = copy.deepcopy(run)
    # the report must not depend on the cheap isolation mode: every reference in its own process
    best.setdefault('config', {})['ref_isolation'] = 'fork'
    # 1. only the client involved
    if len(best['clients']) > 1:
        cand = only_client(best, verdict['c'])
        if fails_same(cand, sig, props, budget):
            best = cand
    c = 0 if len(best['clients']) == 1 else verdict['c']
    # 2. everything after the failing step is irrelevant
    v = fails_same(best, sig, props, budget)
    if v is not None:
        cand = copy.deepcopy(best)
        cand['plan'] = [s for s in cand['plan'] if s['seq'] <= v['seq']]
        if fails_same(cand, sig, props, budget):
            best = cand
    best = ddmin_steps(best, sig, props, budget)
    best = simplify_faults(best, sig, props, budget)
    best = simplify_program(best, c, sig, props, budget)
    best = simplify_numbers(best, c, sig, props, budget)
    best = ddmin_steps(best, sig, props, budget)
    budget[0] = max(budget[0], 1)
    final = fails_same(best, sig, props, budget)
    return best, final, max_tests - budget[0]
