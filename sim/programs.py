"""Straight-line programs R^N -> R^M: generator (pure Python, needs no algopy)
and interpreter (same code path whether registers hold Function, UTPM, ndarray
or the exact model's object arrays).

Register i < n_in holds input i; instruction j defines register n_in + j.
An instruction is a dict {'op', 'a': [operands], ...params, 'sh': static result
shape or None, 't': in truth catalogue T, 'p': exact-model (polynomial) op}.
Operands: int -> register; {'c': float} Python float; {'ci': int} Python int;
{'cn': float} numpy.float64; {'ca': nested list} ndarray constant.
"""
import numpy

MAG_CAP = 1.0e4

UNARY = ('sin', 'cos', 'exp', 'tan', 'sqrt', 'log', 'reciprocal', 'square', 'negative',
         'expm1', 'log1p', 'erf', 'expit', 'neg', 'gammaln', 'psi', 'erfi', 'dawsn', 'logit', 'absolute',
         'sign', 'conjugate')
TUPLE_OPS = ('qr', 'qr_full', 'eigh', 'lu', 'svd')


# --------------------------------------------------------------------------
# index encoding
# --------------------------------------------------------------------------

def enc_index(ix):
    if isinstance(ix, tuple):
        return {'t': [enc_index(i) for i in ix]}
    if isinstance(ix, slice):
        return {'s': [ix.start, ix.stop, ix.step]}
    return int(ix)


def dec_index(e):
    if isinstance(e, dict):
        if 't' in e:
            return tuple(dec_index(i) for i in e['t'])
        return slice(*e['s'])
    return e


# --------------------------------------------------------------------------
# interpreter
# --------------------------------------------------------------------------

class AlgopyBackend(object):
    """Primitives expressed through algopy's generic functions and Python
    operators only."""

    def __init__(self, algopy, traced=False):
        self.al = algopy
        self.traced = traced      # True while a program is being recorded
        al = algopy
        self.un = {
            'sin': al.sin, 'cos': al.cos, 'exp': al.exp, 'tan': al.tan, 'sqrt': al.sqrt,
            'log': al.log, 'reciprocal': al.reciprocal, 'square': al.square,
            'negative': al.negative, 'expm1': al.expm1, 'log1p': al.log1p,
            'erf': al.special.erf, 'expit': al.special.expit, 'neg': lambda v: -v,
            'gammaln': al.special.gammaln, 'psi': al.special.psi, 'erfi': al.special.erfi,
            'dawsn': al.special.dawsn, 'logit': al.special.logit, 'absolute': al.absolute,
            'sign': al.sign, 'conjugate': al.conjugate,
        }
        self.spf = {'polygamma': al.special.polygamma, 'hyperu': al.special.hyperu,
                    'botched_clip': al.special.botched_clip}
        self.lin1 = {'inv': al.inv, 'det': al.det, 'logdet': al.logdet, 'trace': al.trace,
                     'cholesky': al.cholesky, 'qr': al.qr, 'qr_full': al.qr_full, 'eigh': al.eigh,
                     'lu': al.lu, 'svd': al.svd, 'diag': al.diag, 'prod': al.prod,
                     'triu': al.triu, 'tril': al.tril, 'symvec': al.symvec, 'vecsym': al.vecsym}

    def const_array(self, nested):
        return numpy.array(nested, dtype=float)

    def wrap_const(self, value):
        """A constant the program wraps explicitly: a tracer node while recording, the plain
        number otherwise."""
        return self.al.Function(float(value)) if self.traced else float(value)

    def unary(self, name, v):
        return self.un[name](v)

    def special(self, name, params, v):
        return self.spf[name](*(list(params) + [v]))

    def sum(self, v, axis):
        return self.al.sum(v, axis=axis)

    def dot(self, a, b):
        return self.al.dot(a, b)

    def outer(self, a, b):
        return self.al.outer(a, b)

    def reshape(self, v, shape):
        return self.al.reshape(v, shape)

    def transpose(self, v):
        return self.al.transpose(v)

    def zeros(self, shape, like):
        return self.al.zeros(shape, dtype=like)

    def ones(self, shape, like):
        return self.al.ones(shape, dtype=like)

    def linalg1(self, name, v):
        return self.lin1[name](v)

    def solve(self, a, b):
        return self.al.solve(a, b)

    def fft(self, v, n, axis, inverse=False):
        f = self.al.fft.ifft if inverse else self.al.fft.fft
        return f(v, n=n, axis=axis)

    def real(self, v):
        return self.al.real(v)

    def tile(self, v, reps):
        return self.al.tile(v, reps)

    def tanh(self, v):
        return self.al.tanh(v)


def operand(o, regs, B):
    if isinstance(o, int):
        return regs[o]
    if 'c' in o:
        return float(o['c'])
    if 'ci' in o:
        return int(o['ci'])
    if 'cn' in o:
        return numpy.float64(o['cn'])
    return B.const_array(o['ca'])


def exec_instr(ins, regs, B):
    """Execute one instruction; returns the new register's value."""
    op = ins['op']
    A = [operand(o, regs, B) for o in ins['a']]
    if op == 'wrapc':
        return B.wrap_const(ins['value'])
    if op == 'add':
        return A[0] + A[1]
    if op == 'sub':
        return A[0] - A[1]
    if op == 'mul':
        return A[0] * A[1]
    if op == 'div':
        return A[0] / A[1]
    if op == 'pow':
        return A[0] ** A[1]
    if op == 'un':
        return B.unary(ins['f'], A[0])
    if op == 'spf':
        return B.special(ins['f'], ins['params'], A[0])
    if op == 'sum':
        return B.sum(A[0], ins['axis'])
    if op == 'dot':
        return B.dot(A[0], A[1])
    if op == 'outer':
        return B.outer(A[0], A[1])
    if op == 'reshape':
        return B.reshape(A[0], tuple(ins['shape']))
    if op == 'transpose':
        # the attribute form x.T and the function form are the same operation
        return A[0].T if ins.get('attr') else B.transpose(A[0])
    if op == 'getitem':
        return A[0][dec_index(ins['ix'])]
    if op == 'zeros':
        return B.zeros(tuple(ins['shape']), A[0])
    if op == 'ones':
        return B.ones(tuple(ins['shape']), A[0])
    if op == 'setitem':
        A[0][dec_index(ins['ix'])] = A[1]
        return None
    if op == 'lin1':
        return B.linalg1(ins['f'], A[0])
    if op == 'solve':
        return B.solve(A[0], A[1])
    if op == 'unpack':
        return list(A[0])
    if op == 'pick':
        return A[0][ins['k']]
    if op == 'fft':
        return B.fft(A[0], ins['n'], ins['axis'], ins.get('inv', False))
    if op == 'real':
        return B.real(A[0])
    if op == 'tile':
        return B.tile(A[0], ins['reps'])
    if op == 'try':
        try:
            what = ins['what']
            if what == 'rpow':
                2 ** A[0]
            elif what == 'baddot':
                B.dot(A[0], A[1])
            elif what == 'tanh':
                B.tanh(A[0])
            elif what == 'badindex':
                A[0][ins['k']]
            elif what == 'badsetitem':
                # a write that raises; the graph does not contain it, so for the recorded program
                # the buffer is unchanged -- make that true for plain operands as well (a UTPM
                # buffer zeroes the higher coefficients of the slot before it notices that a
                # plain right-hand side does not fit)
                tgt = A[0]
                data = tgt if isinstance(tgt, numpy.ndarray) else getattr(tgt, 'data', None)
                saved = data.copy() if isinstance(data, numpy.ndarray) else None
                try:
                    tgt[dec_index(ins['ix'])] = A[1]
                except Exception:
                    if saved is not None:
                        data[...] = saved
                    raise
        except Exception:
            pass
        return None
    raise ValueError('unknown op %r' % (op,))


def run_program(prog, inputs, B, upto=None):
    """Run all (or the first `upto`) instructions on the given input values."""
    regs = list(inputs)
    instrs = prog['instrs'] if upto is None else prog['instrs'][:upto]
    for ins in instrs:
        regs.append(exec_instr(ins, regs, B))
    return regs


def outputs_of(prog, regs):
    return [regs[i] for i in prog['outputs']]


# --------------------------------------------------------------------------
# generator
# --------------------------------------------------------------------------

def _q(rng, lo, hi, step):
    """Random multiple of `step` in [lo, hi], never zero."""
    while True:
        v = rng.randint(int(round(lo / step)), int(round(hi / step))) * step
        if v != 0:
            return float(v)


def const_scalar(rng):
    v = _q(rng, -2.0, 2.0, 0.25)
    r = rng.random()
    if r < 0.6:
        return {'c': v}
    if r < 0.8:
        return {'cn': v}
    iv = rng.choice([-2, -1, 2, 3])
    return {'ci': iv}


def const_value(o):
    for k in ('c', 'ci', 'cn'):
        if k in o:
            return float(o[k])
    return None


def const_array(rng, shape):
    n = 1
    for s in shape:
        n *= s
    flat = [_q(rng, -2.0, 2.0, 0.25) for _ in range(n)]
    return {'ca': numpy.array(flat).reshape(shape).tolist()}


def _prod(shape):
    n = 1
    for s in shape:
        n *= s
    return n


class Reg(object):
    __slots__ = ('sh', 'mag', 'pos', 'kind', 'flat', 'used', 'poly', 'elems', 'cplx', 'root')

    def __init__(self, sh, mag, kind='v', pos=None, flat=True, poly=True, elems=None, cplx=False):
        self.sh = tuple(sh) if sh is not None else None
        self.mag = mag
        self.pos = pos
        self.kind = kind
        self.flat = flat
        self.used = False
        self.poly = poly
        self.elems = elems
        self.cplx = cplx
        self.root = None      # buffer register this value is (possibly) a view of


# Operation classes currently outside the truth catalogue T (DESIGN 3.3): the
# reverse sweep through them is wrong or raises on a *fresh* graph, which is
# C03's subject; each has a single-purpose probe family instead.  Remove an
# entry when the class has been repaired in the repository.
NON_T = set(['fft'])
ALLOW_ALIASED_WRITES = True     # a view of a buffer written back into the same buffer (buf[0:2] = buf[1:3])
# Classes repaired in the repository (see known_findings.json, "fixed" entries); they are
# part of T again and the ordinary families generate them: setitem_bcast, dot_matvec,
# outer, sum_axis0, reshape_noncontig, pow_negint, eigh_vectors.  lu, svd and qr_full were
# outside T only for lack of evidence; a scan against forward mode and finite differences
# found them in agreement, so they are in T as well.

FAMILIES = ('poly', 'smooth', 'buffer', 'linalg', 'kwargs', 'nopb', 'tryop')
PROBES = ('dot_matvec', 'outer_distinct', 'reshape_noncontig', 'sum_axis0', 'pow_negint', 'setitem_bcast')


class Gen(object):
    """Builds one well-formed program.  `truth_only` restricts the op set to
    the truth catalogue T (DESIGN 3.3)."""

    def __init__(self, rng, family, n_in, out_shapes, size, truth_only=False, off_prob=0.0, prelude=False):
        self.off_prob = off_prob
        self.prelude = prelude
        self.pre_buf = None
        self.npre = 0
        self.rng = rng
        self.family = family
        self.n_in = list(n_in)
        self.out_shapes = [tuple(s) for s in out_shapes]
        self.size = size
        self.truth_only = truth_only
        self.regs = [Reg((n,), 2.0) for n in n_in]
        self.instrs = []
        self.stale_views = False

    # ---- emission ---------------------------------------------------------
    def emit(self, op, a, sh, mag, t=True, p=False, kind='v', pos=None, flat=True, elems=None,
             cplx=False, **params):
        ins = {'op': op, 'a': list(a)}
        ins.update(params)
        ins['sh'] = list(sh) if sh is not None else None
        ins['t'] = bool(t)
        ins['p'] = bool(p)
        for o in a:
            if isinstance(o, int):
                self.regs[o].used = True
        if op in ('add', 'sub', 'mul', 'div', 'pow', 'un'):
            # NumPy keeps the memory layout of the operands for elementwise results, so a
            # value computed from a transposed view is not C-contiguous either
            flat = all(self.regs[o].flat for o in a if isinstance(o, int))
        poly = p and all(self.regs[o].poly for o in a if isinstance(o, int))
        ins['p'] = bool(poly)
        if (self.off_prob and kind == 'v' and not cplx and op in ('add', 'sub', 'mul', 'div', 'pow', 'un', 'sum', 'dot')
                and sh is not None and self.rng.random() < self.off_prob):
            # executed with recording switched off: the result is a value the graph captures as a
            # constant (frozen at its recording-time value), not an operation of the graph
            ins['off'] = True
            ins['t'] = False
        self.instrs.append(ins)
        self.regs.append(Reg(sh, mag, kind=kind, pos=pos, flat=flat, poly=poly, elems=elems, cplx=cplx))
        me = len(self.regs) - 1
        if kind == 'buf':
            self.regs[me].root = me
        elif op in ('getitem', 'transpose', 'reshape') and isinstance(a[0], int):
            self.regs[me].root = self.regs[a[0]].root
        return me

    def values(self, pred=None):
        out = []
        for i, r in enumerate(self.regs):
            if r.kind == 'v' and not r.cplx and (pred is None or pred(r)):
                out.append(i)
        return out

    def pick_reg(self, pred=None):
        c = self.values(pred)
        if not c:
            return None
        rng = self.rng
        # prefer recent / unused registers so that programs get depth
        if rng.random() < 0.6:
            fresh = [i for i in c if not self.regs[i].used]
            if fresh:
                return rng.choice(fresh[-4:])
        if rng.random() < 0.5:
            return rng.choice(c[-5:])
        return rng.choice(c)

    # ---- T-safe constant linear maps ---------------------------------------
    def const_linear(self, v, m):
        """C . v for a constant (m, k) matrix, through the matrix-matrix path
        (reshape to a column first): dot with exactly one 1-D operand is in
        NON_T."""
        rv = self.regs[v]
        k = rv.sh[0]
        mag = rv.mag * 2.0 * k
        if 'dot_matvec' not in NON_T and self.rng.random() < 0.5:
            return self.emit('dot', [const_array(self.rng, (m, k)), v], (m,), mag, t=True, p=True)
        col = self.emit('reshape', [v], (k, 1), rv.mag, t=True, p=True, shape=[k, 1])
        d = self.emit('dot', [const_array(self.rng, (m, k)), col], (m, 1), mag, t=True, p=True)
        return self.emit('reshape', [d], (m,), mag, t=True, p=True, shape=[m])

    def matrix_from(self, v, n, k):
        d = self.const_linear(v, n * k)
        return self.emit('reshape', [d], (n, k), self.regs[d].mag, t=True, p=True, shape=[n, k])

    # ---- elementary building blocks ----------------------------------------
    def op_binary(self):
        rng = self.rng
        a = self.pick_reg()
        ra = self.regs[a]
        op = rng.choice(['add', 'sub', 'mul', 'mul', 'add'])
        r = rng.random()
        if r < 0.45:
            # register (op) register, broadcast-compatible
            def compat(rb):
                if rb.sh == ra.sh or rb.sh == () or ra.sh == ():
                    return True
                if len(ra.sh) == 2 and len(rb.sh) == 1 and rb.sh[0] == ra.sh[1]:
                    return True
                if len(rb.sh) == 2 and len(ra.sh) == 1 and ra.sh[0] == rb.sh[1]:
                    return True
                return False
            b = self.pick_reg(compat)
            if b is None:
                return False
            rb = self.regs[b]
            sh = ra.sh if len(ra.sh) >= len(rb.sh) else rb.sh
            mag = ra.mag * rb.mag if op == 'mul' else ra.mag + rb.mag
            if mag > MAG_CAP:
                return False
            pos = None
            if op == 'add' and ra.pos and rb.pos:
                pos = (ra.pos[0] + rb.pos[0], ra.pos[1] + rb.pos[1])
            if op == 'mul' and ra.pos and rb.pos:
                pos = (ra.pos[0] * rb.pos[0], ra.pos[1] * rb.pos[1])
            args = [a, b] if rng.random() < 0.5 or op == 'sub' else [b, a]
            if op == 'sub' and rng.random() < 0.5:
                args = [b, a]
            self.emit(op, args, sh, mag, t=True, p=True, pos=pos)
            return True
        # register (op) constant, either side
        if ra.sh == () and r > 0.75:
            # a traced scalar against a constant vector: the result is broadcast up to the vector
            k = rng.randint(2, 4)
            c = const_array(rng, (k,))
            sh = (k,)
        elif r < 0.8 or ra.sh == ():
            c = const_scalar(rng)
            sh = ra.sh
        else:
            # array constant of the same shape, or a row to broadcast against a matrix
            if len(ra.sh) == 2 and rng.random() < 0.4:
                c = const_array(rng, (ra.sh[1],))
            else:
                c = const_array(rng, ra.sh)
            sh = ra.sh
        cv = const_value(c)
        cm = abs(cv) if cv is not None else 2.0
        mag = ra.mag * cm if op == 'mul' else ra.mag + cm
        if mag > MAG_CAP:
            return False
        pos = None
        if ra.pos and cv is not None:
            if op == 'mul' and cv > 0:
                pos = (ra.pos[0] * cv, ra.pos[1] * cv)
            if op == 'add' and cv > 0:
                pos = (ra.pos[0] + cv, ra.pos[1] + cv)
        left = rng.random() < 0.5
        args = [c, a] if left else [a, c]
        if op == 'sub':
            pos = None
        self.emit(op, args, sh, mag, t=True, p=True, pos=pos)
        return True

    def op_divconst(self):
        a = self.pick_reg()
        ra = self.regs[a]
        c = const_scalar(self.rng)
        cv = abs(const_value(c))
        mag = ra.mag / cv
        if mag > MAG_CAP:
            return False
        self.emit('div', [a, c], ra.sh, mag, t=True, p=True)
        return True

    def op_powint(self):
        a = self.pick_reg()
        ra = self.regs[a]
        k = self.rng.choice([2, 2, 3])
        mag = ra.mag ** k
        if mag > MAG_CAP:
            return False
        pos = (ra.pos[0] ** k, ra.pos[1] ** k) if ra.pos else None
        if self.rng.random() < 0.3:
            self.emit('un', [a], ra.sh, ra.mag ** 2, t=True, p=True, f='square',
                      pos=(ra.pos[0] ** 2, ra.pos[1] ** 2) if ra.pos else None)
        else:
            self.emit('pow', [a, {'ci': k}], ra.sh, mag, t=True, p=True, pos=pos)
        return True

    def op_neg(self):
        a = self.pick_reg()
        ra = self.regs[a]
        f = self.rng.choice(['neg', 'negative'])
        self.emit('un', [a], ra.sh, ra.mag, t=True, p=True, f=f)
        return True

    def op_sum(self):
        a = self.pick_reg(lambda r: len(r.sh) >= 1)
        if a is None:
            return False
        ra = self.regs[a]
        n = _prod(ra.sh)
        if len(ra.sh) == 1:
            axis = self.rng.choice([None, None, 0, -1])
            sh = ()
            mag = ra.mag * n
        else:
            axis = self.rng.choice([None, 1, -1] + ([] if 'sum_axis0' in NON_T else [0, -2]))
            if axis is None:
                sh = ()
                mag = ra.mag * n
            elif axis in (0, -2):
                sh = (ra.sh[1],)
                mag = ra.mag * ra.sh[0]
            else:
                sh = (ra.sh[0],)
                mag = ra.mag * ra.sh[1]
        if mag > MAG_CAP:
            return False
        pos = None
        if ra.pos:
            k = mag / ra.mag
            pos = (ra.pos[0] * k, ra.pos[1] * k)
        self.emit('sum', [a], sh, mag, t=True, p=True, axis=axis, pos=pos)
        return True

    def op_dot(self):
        rng = self.rng
        r = rng.random()
        if r < 0.35:
            a = self.pick_reg(lambda q: len(q.sh) == 1)
            if a is None:
                return False
            ra = self.regs[a]
            b = self.pick_reg(lambda q: q.sh == ra.sh)
            rb = self.regs[b]
            mag = ra.mag * rb.mag * ra.sh[0]
            if mag > MAG_CAP:
                return False
            self.emit('dot', [a, b], (), mag, t=True, p=True)
            return True
        if r < 0.6:
            # constant matrix times traced vector
            a = self.pick_reg(lambda q: len(q.sh) == 1)
            if a is None:
                return False
            ra = self.regs[a]
            m = rng.randint(1, 3)
            mag = ra.mag * 2.0 * ra.sh[0]
            if mag > MAG_CAP:
                return False
            if self.truth_only and 'dot_matvec' in NON_T:
                return False
            self.emit('dot', [const_array(rng, (m, ra.sh[0])), a], (m,), mag, t='dot_matvec' not in NON_T, p=True)
            return True
        a = self.pick_reg(lambda q: len(q.sh) == 2)
        if a is None:
            return False
        ra = self.regs[a]
        if rng.random() < 0.5:
            b = self.pick_reg(lambda q: len(q.sh) == 2 and q.sh[0] == ra.sh[1])
            if b is None:
                return False
            rb = self.regs[b]
            mag = ra.mag * rb.mag * ra.sh[1]
            if mag > MAG_CAP:
                return False
            self.emit('dot', [a, b], (ra.sh[0], rb.sh[1]), mag, t=True, p=True)
            return True
        if 'dot_matvec' not in NON_T and rng.random() < 0.6:
            # matrix . vector, vector . matrix, matrix . constant vector, constant vector . matrix
            w = rng.choice(['Mv', 'vM', 'Mc', 'cM'])
            if w == 'Mv':
                v = self.pick_reg(lambda q: q.sh == (ra.sh[1],))
                if v is not None and ra.mag * self.regs[v].mag * ra.sh[1] <= MAG_CAP:
                    self.emit('dot', [a, v], (ra.sh[0],), ra.mag * self.regs[v].mag * ra.sh[1], t=True, p=True)
                    return True
            elif w == 'vM':
                v = self.pick_reg(lambda q: q.sh == (ra.sh[0],))
                if v is not None and ra.mag * self.regs[v].mag * ra.sh[0] <= MAG_CAP:
                    self.emit('dot', [v, a], (ra.sh[1],), ra.mag * self.regs[v].mag * ra.sh[0], t=True, p=True)
                    return True
            elif ra.mag * 2.0 * max(ra.sh) <= MAG_CAP:
                if w == 'Mc':
                    self.emit('dot', [a, const_array(rng, (ra.sh[1],))], (ra.sh[0],), ra.mag * 2.0 * ra.sh[1],
                              t=True, p=True)
                else:
                    self.emit('dot', [const_array(rng, (ra.sh[0],)), a], (ra.sh[1],), ra.mag * 2.0 * ra.sh[0],
                              t=True, p=True)
                return True
            return False
        k = rng.randint(1, 3)
        mag = ra.mag * 2.0 * max(ra.sh)
        if mag > MAG_CAP:
            return False
        if rng.random() < 0.5:
            self.emit('dot', [a, const_array(rng, (ra.sh[1], k))], (ra.sh[0], k), mag, t=True, p=True)
        else:
            self.emit('dot', [const_array(rng, (k, ra.sh[0])), a], (k, ra.sh[1]), mag, t=True, p=True)
        return True

    def op_outer_same(self):
        a = self.pick_reg(lambda q: len(q.sh) == 1 and q.sh[0] <= 4)
        if a is None:
            return False
        ra = self.regs[a]
        b = a
        if self.rng.random() < 0.6:
            # a different vector of the same length (UTPM.outer needs equal lengths)
            b = self.pick_reg(lambda q: q.sh == ra.sh)
        mag = ra.mag * self.regs[b].mag
        if mag > MAG_CAP or (self.truth_only and 'outer' in NON_T):
            return False
        self.emit('outer', [a, b], (ra.sh[0], ra.sh[0]), mag, t='outer' not in NON_T, p=True)
        return True

    def op_reshape(self):
        a = self.pick_reg(lambda q: (q.flat or 'reshape_noncontig' not in NON_T) and len(q.sh) >= 1
                          and _prod(q.sh) in (4, 6, 8, 9))
        if a is None:
            return False
        ra = self.regs[a]
        n = _prod(ra.sh)
        if len(ra.sh) == 2:
            shape = (n,)
        else:
            shape = {4: (2, 2), 6: self.rng.choice([(2, 3), (3, 2)]), 8: self.rng.choice([(2, 4), (4, 2)]),
                     9: (3, 3)}[n]
        self.emit('reshape', [a], shape, ra.mag, t=True, p=True, shape=list(shape), pos=ra.pos)
        return True

    def op_transpose(self):
        a = self.pick_reg(lambda q: len(q.sh) == 2)
        if a is None:
            return False
        ra = self.regs[a]
        flat = 1 in ra.sh and ra.flat
        form = {'attr': True} if self.rng.random() < 0.5 else {}
        self.emit('transpose', [a], (ra.sh[1], ra.sh[0]), ra.mag, t=True, p=True, pos=ra.pos, flat=flat, **form)
        return True

    def op_getitem(self):
        rng = self.rng
        a = self.pick_reg(lambda q: len(q.sh) >= 1)
        if a is None:
            return False
        ra = self.regs[a]
        if len(ra.sh) == 1:
            n = ra.sh[0]
            r = rng.random()
            if r < 0.4:
                ix = rng.randint(-n, n - 1)
                sh = ()
                flat = True
            elif r < 0.8 and n >= 2:
                lo = rng.randint(0, n - 2)
                hi = rng.randint(lo + 1, n)
                ix = slice(lo, hi, None)
                sh = (hi - lo,)
                flat = True
            else:
                ix = slice(None, None, -1)
                sh = (n,)
                flat = True
        else:
            m, n = ra.sh
            r = rng.random()
            if r < 0.25:
                ix = (rng.randint(-m, m - 1), rng.randint(-n, n - 1))
                sh = ()
                flat = True
            elif r < 0.5:
                ix = rng.randint(-m, m - 1)
                sh = (n,)
                flat = ra.flat
            elif r < 0.75:
                ix = (slice(None, None, None), rng.randint(-n, n - 1))
                sh = (m,)
                flat = True
            elif m >= 2 and r < 0.9:
                lo = rng.randint(0, m - 2)
                hi = rng.randint(lo + 1, m)
                ix = slice(lo, hi, None)
                sh = (hi - lo, n)
                flat = ra.flat
            elif n >= 2:
                lo = rng.randint(0, n - 2)
                hi = rng.randint(lo + 1, n)
                ix = (slice(None, None, None), slice(lo, hi, None))
                sh = (m, hi - lo)
                flat = (hi - lo == n and ra.flat) or m == 1
            else:
                return False
        self.emit('getitem', [a], sh, ra.mag, t=True, p=True, ix=enc_index(ix), pos=ra.pos, flat=flat)
        return True

    # ---- smooth wrappers ---------------------------------------------------
    def op_smooth(self):
        rng = self.rng
        a = self.pick_reg()
        ra = self.regs[a]
        sh = ra.sh
        w = rng.choice(['sin', 'cos', 'expsin', 'tansin', 'sqrt', 'log', 'recip', 'powr', 'erf', 'expit',
                        'expm1', 'log1p', 'tansin', 'divpos', 'sqrt', 'special', 'special'])
        if w == 'special':
            w = rng.choice(['erfi', 'dawsn', 'gammaln', 'psi', 'logit', 'polygamma', 'hyperu', 'absolute', 'prod',
                            'sign', 'conjugate', 'botched_clip'])
        if w in ('sign', 'conjugate'):
            # piecewise constant / identity on real data: their kernels run in both sweeps, the
            # value feeds a product so that the adjoint passing through them is not trivially unused
            s = self.emit('un', [a], sh, 1.0, f=rng.choice(['sin', 'cos']))
            g = self.emit('un', [s], sh, 1.0, f=w)
            self.emit('mul', [g, s], sh, 1.0)
            return True
        if w == 'botched_clip':
            s = self.emit('un', [a], sh, 1.0, f=rng.choice(['sin', 'cos']))
            pz = self.emit('add', [s, {'c': 1.5}], sh, 2.5, pos=(0.5, 2.5))
            self.emit('spf', [pz], sh, 2.0, f='botched_clip', params=[1.0, 2.0], pos=(1.0, 2.0))
            return True
        if w in ('erfi', 'dawsn'):
            s = self.emit('un', [a], sh, 1.0, f=rng.choice(['sin', 'cos']))
            self.emit('un', [s], sh, 2.0, f=w)
            return True
        if w == 'logit':
            s = self.emit('un', [a], sh, 1.0, f=rng.choice(['sin', 'cos']))
            m = self.emit('mul', [s, {'c': 0.25}], sh, 0.25)
            u = self.emit('add', [m, {'c': 0.5}], sh, 0.75, pos=(0.25, 0.75))
            self.emit('un', [u], sh, 1.2, f='logit')
            return True
        if w == 'prod':
            v = self.pick_reg(lambda q: len(q.sh) == 1 and q.sh[0] <= 4)
            if v is None:
                return False
            s = self.emit('un', [v], self.regs[v].sh, 1.0, f=rng.choice(['sin', 'cos']))
            pz = self.emit('add', [s, {'c': 1.5}], self.regs[v].sh, 2.5, pos=(0.5, 2.5))
            self.emit('lin1', [pz], (), 40.0, f='prod', pos=(0.06, 40.0))
            return True
        if w in ('gammaln', 'psi', 'polygamma', 'hyperu', 'absolute'):
            s = self.emit('un', [a], sh, 1.0, f=rng.choice(['sin', 'cos']))
            pz = self.emit('add', [s, {'c': 1.5}], sh, 2.5, pos=(0.5, 2.5))
            if w in ('gammaln', 'psi', 'absolute'):
                self.emit('un', [pz], sh, 3.0, f=w)
            elif w == 'polygamma':
                self.emit('spf', [pz], sh, 10.0, f='polygamma', params=[1])
            else:
                self.emit('spf', [pz], sh, 5.0, f='hyperu', params=[0.5, 1.5])
            return True
        if w in ('sin', 'cos'):
            self.emit('un', [a], sh, 1.0, f=w)
            return True
        if w in ('erf', 'expit'):
            # bounded argument: the kernels overflow to inf/inf = nan for |x| in the hundreds,
            # a floating-point range matter no claimed property is about
            if ra.mag > 8.0:
                a = self.emit('un', [a], sh, 1.0, f=rng.choice(['sin', 'cos']))
            self.emit('un', [a], sh, 1.0, f=w, pos=(1e-4, 1.0) if w == 'expit' else None)
            return True
        s = self.emit('un', [a], sh, 1.0, f=rng.choice(['sin', 'cos']))
        if w == 'expsin':
            m = self.emit('mul', [s, {'c': 0.125}] if rng.random() < 0.5 else [{'c': 0.125}, s], sh, 0.125)
            self.emit('un', [m], sh, 1.2, f='exp', pos=(0.8, 1.2))
            return True
        if w == 'expm1':
            m = self.emit('mul', [s, {'c': 0.25}], sh, 0.25)
            self.emit('un', [m], sh, 0.3, f='expm1')
            return True
        if w == 'tansin':
            m = self.emit('mul', [{'c': 0.25}, s], sh, 0.25)
            self.emit('un', [m], sh, 0.3, f='tan')
            return True
        # strictly positive argument 1.5 + sin v in [0.5, 2.5]
        p = self.emit('add', [{'c': 1.5}, s] if rng.random() < 0.5 else [s, {'c': 1.5}], sh, 2.5, pos=(0.5, 2.5))
        if w == 'sqrt':
            self.emit('un', [p], sh, 1.6, f='sqrt', pos=(0.7, 1.6))
        elif w == 'log':
            self.emit('un', [p], sh, 1.0, f='log')
        elif w == 'log1p':
            self.emit('un', [p], sh, 1.3, f='log1p', pos=(0.4, 1.3))
        elif w == 'recip':
            self.emit('un', [p], sh, 2.0, f='reciprocal', pos=(0.4, 2.0))
        elif w == 'powr':
            r = rng.choice([0.5, 1.5, 2.5, -0.5, -1.5] + ([] if 'pow_negint' in NON_T else [-1, -2, -3]))
            self.emit('pow', [p, {'ci': r} if isinstance(r, int) else {'c': r}], sh, 10.0, pos=(0.1, 10.0))
        elif w == 'divpos':
            b = self.pick_reg(lambda q: q.sh == sh or q.sh == ())
            if b is None or self.regs[b].mag * 2.0 > MAG_CAP:
                return False
            if rng.random() < 0.5:
                self.emit('div', [b, p], sh, self.regs[b].mag * 2.0)
            else:
                self.emit('div', [const_scalar(rng), p], sh, 4.0)
        return True

    # ---- buffers -----------------------------------------------------------
    def scalar_expr(self, not_view_of=None):
        """A scalar-valued traced register (creating one if necessary) that is
        not a view of buffer `not_view_of`."""
        rng = self.rng

        def ok(q):
            return not_view_of is None or q.root != not_view_of
        c = self.values(lambda q: q.sh == () and ok(q))
        if c and rng.random() < 0.6:
            return rng.choice(c[-4:])
        v = self.pick_reg(lambda q: len(q.sh) == 1 and ok(q))
        rv = self.regs[v]
        i = rng.randint(-rv.sh[0], rv.sh[0] - 1)
        g = self.emit('getitem', [v], (), rv.mag, t=True, p=True, ix=enc_index(i), pos=rv.pos)
        if rng.random() < 0.5:
            w = self.pick_reg(lambda q: q.sh == () and q.mag * rv.mag <= MAG_CAP)
            if w is not None:
                g = self.emit('mul', [g, w], (), rv.mag * self.regs[w].mag, t=True, p=True)
        return g

    def block_buffer(self):
        """Allocate a buffer with a traced dtype, write, read, overwrite."""
        rng = self.rng
        two_d = rng.random() < 0.3
        shape = (rng.randint(2, 3), rng.randint(2, 3)) if two_d else (rng.randint(2, 4),)
        alloc = 'zeros' if rng.random() < 0.8 else 'ones'
        if self.pre_buf is not None:
            # the buffer that was allocated in the prelude, before the inputs were wrapped
            buf = self.pre_buf
            self.pre_buf = None
            shape = self.regs[buf].sh
            two_d = len(shape) == 2
            self.regs[buf].kind = 'buf'
        else:
            buf = self.emit(alloc, [0], shape, 1.0, t=True, p=True, kind='buf', shape=list(shape))
        bmag = [1.0]
        reads = []
        views = []          # registers that are (possibly) views of the buffer

        def slot():
            if two_d:
                r = rng.random()
                if r < 0.5:
                    return (rng.randrange(shape[0]), rng.randrange(shape[1])), ()
                if r < 0.75:
                    return rng.randrange(shape[0]), (shape[1],)
                return (slice(None, None, None), rng.randrange(shape[1])), (shape[0],)
            if rng.random() < 0.8:
                return rng.randrange(shape[0]), ()
            lo = rng.randint(0, shape[0] - 2)
            hi = rng.randint(lo + 1, shape[0])
            return slice(lo, hi, None), (hi - lo,)

        def value_for(sh):
            # never a direct view of this buffer: writing a view of a slot back into
            # the buffer is an aliased form no documented idiom uses
            # (one-dimensional buffers only: NumPy itself resolves an overlapping column-into-row
            # assignment of a 2-D array differently for plain arrays and for the (D, P, ...) data of
            # a UTPM, so such a program means different things for different operand kinds)
            no_alias = None if (ALLOW_ALIASED_WRITES and not two_d and rng.random() < 0.5) else buf
            if sh == ():
                return self.scalar_expr(not_view_of=no_alias)
            v = self.pick_reg(lambda q: q.sh == sh and (no_alias is None or q.root != buf))
            if v is None:
                if self.truth_only and 'setitem_bcast' in NON_T:
                    # build a value of exactly the slot's shape
                    src = self.pick_reg(lambda q: len(q.sh) == 1 and q.mag * 2.0 * q.sh[0] <= MAG_CAP)
                    return self.const_linear(src, sh[0])
                # broadcast a scalar into the slice
                return self.scalar_expr(not_view_of=no_alias)
            return v

        n_steps = rng.randint(3, 8)
        for _ in range(n_steps):
            r = rng.random()
            if r < 0.5 or not reads:
                ix, sh = slot()
                if rng.random() < 0.12:
                    # a plain constant written into the traced buffer (buf[1] = 2.5)
                    cst = const_scalar(rng) if (sh == () or rng.random() < 0.5) else const_array(rng, sh)
                    live = [i for i, g in enumerate(self.regs) if g.root == buf and i != buf and g.kind == 'v']
                    if live:
                        if self.truth_only or rng.random() < 0.5:
                            for q in live:
                                self.regs[q].kind = 'dead'
                        else:
                            self.stale_views = True
                    self.emit('setitem', [buf, cst], None, 0.0, t=True, p=True, kind='none', ix=enc_index(ix))
                    self.regs[buf].used = True
                    bmag[0] = max(bmag[0], 2.0)
                    self.regs[buf].mag = bmag[0]
                    reads.append(None)
                    continue
                v = value_for(sh)
                if rng.random() < 0.3 and reads:
                    # read-modify-write: buf[ix] = buf[ix] * v + w
                    old = self.emit('getitem', [buf], sh, bmag[0], t=True, p=True, ix=enc_index(ix))
                    views.append(old)
                    m = bmag[0] * self.regs[v].mag
                    if m <= MAG_CAP:
                        v = self.emit('mul', [old, v], sh if sh != () else self.regs[v].sh, m, t=True, p=True)
                        if self.regs[v].sh != sh:
                            continue
                if self.regs[v].mag > MAG_CAP:
                    continue
                # A read taken before this write is a view under UTPM semantics but a
                # copy under NumPy scalar indexing: a program that still uses it afterwards
                # means different things for different operand kinds.  In truth programs
                # such reads are retired; elsewhere they stay (C05/C06 compare like with
                # like) and the exact model is switched off for the program.
                live = [r for r, q in enumerate(self.regs) if q.root == buf and r != buf and q.kind == 'v']
                if live:
                    if self.truth_only or rng.random() < 0.5:
                        for r in live:
                            self.regs[r].kind = 'dead'
                    else:
                        self.stale_views = True
                bcast = self.regs[v].sh != sh
                self.emit('setitem', [buf, v], None, 0.0, t=not (bcast and 'setitem_bcast' in NON_T), p=True,
                          kind='none', ix=enc_index(ix))
                self.regs[buf].used = True
                bmag[0] = max(bmag[0], self.regs[v].mag)
                self.regs[buf].mag = bmag[0]
                reads.append(None)
            else:
                ix, sh = slot()
                g = self.emit('getitem', [buf], sh, bmag[0], t=True, p=True, ix=enc_index(ix))
                views.append(g)
                # use the value that was read, so that it matters downstream
                w = self.pick_reg(lambda q: q.sh == sh or q.sh == ())
                if w is not None and w != g and self.regs[w].mag * bmag[0] <= MAG_CAP and rng.random() < 0.8:
                    self.emit('mul', [g, w], sh, self.regs[w].mag * bmag[0], t=True, p=True)
        # the buffer as a whole becomes an ordinary value for later ops
        self.regs[buf].kind = 'v'
        self.regs[buf].used = False
        return True

    # ---- linalg ------------------------------------------------------------
    def spd_matrix(self):
        """A = X^T X + 3 I (n x n), well conditioned for every input."""
        rng = self.rng
        n = rng.choice([2, 2, 3])
        v = self.pick_reg(lambda q: len(q.sh) == 1 and q.sh[0] == n and q.mag <= 4.0)
        if v is not None and rng.random() < 0.5 and not (self.truth_only and 'outer' in NON_T):
            X = self.emit('outer', [v, v], (n, n), self.regs[v].mag ** 2, t='outer' not in NON_T, p=True)
        else:
            c = self.values(lambda q: q.sh == (n, n) and q.mag <= 8.0)
            if c and rng.random() < 0.5:
                X = rng.choice(c)
            else:
                src = self.pick_reg(lambda q: len(q.sh) == 1 and q.mag <= 4.0)
                X = self.matrix_from(src, n, n)
        if self.regs[X].mag > 1.0:
            # bounded entries keep A = X^T X + 3 I well conditioned whatever came before
            X = self.emit('un', [X], (n, n), 1.0, f=rng.choice(['sin', 'cos']))
        Xt = self.emit('transpose', [X], (n, n), self.regs[X].mag, t=True, p=True, flat=False)
        m = self.regs[X].mag ** 2 * n
        G = self.emit('dot', [Xt, X], (n, n), m, t=True, p=True)
        eye = {'ca': (3.0 * numpy.eye(n)).tolist()}
        A = self.emit('add', [G, eye] if rng.random() < 0.5 else [eye, G], (n, n), m + 3.0, t=True, p=True)
        return A, n

    def block_linalg(self):
        rng = self.rng
        A, n = self.spd_matrix()
        amag = self.regs[A].mag
        # scale to keep the conditioning mild whatever the prefix did
        if amag > 50.0:
            return False
        f = rng.choice(['inv', 'solve', 'det', 'logdet', 'trace', 'cholesky', 'qr', 'qr_full', 'eigh', 'lu',
                        'svd', 'qr', 'eigh', 'solve', 'diag', 'symvec'])
        if self.truth_only and f in NON_T:
            f = 'qr'
        if f == 'inv':
            self.emit('lin1', [A], (n, n), 1.0, f='inv')
        elif f == 'solve':
            k = rng.randint(1, 2)
            if rng.random() < 0.5:
                src = self.pick_reg(lambda q: len(q.sh) == 1 and q.mag <= 8.0)
                rs = self.regs[src]
                Bm = self.matrix_from(src, n, k)
            else:
                Bm = const_array(rng, (n, k))
            self.emit('solve', [A, Bm], (n, k), 20.0)
        elif f in ('det',):
            self.emit('lin1', [A], (), amag ** n * 6, f='det', pos=(1.0, amag ** n * 6))
        elif f == 'logdet':
            self.emit('lin1', [A], (), 30.0, f='logdet')
        elif f == 'trace':
            self.emit('lin1', [A], (), amag * n, f='trace', p=True)
        elif f == 'cholesky':
            self.emit('lin1', [A], (n, n), amag, f='cholesky')
        elif f == 'diag':
            v = self.pick_reg(lambda q: len(q.sh) == 1 and q.sh[0] <= 3)
            if v is None:
                return False
            k = self.regs[v].sh[0]
            self.emit('lin1', [v], (k, k), self.regs[v].mag, f='diag')
        elif f == 'symvec':
            sv = self.emit('lin1', [A], (n * (n + 1) // 2,), amag, f='symvec')
            if rng.random() < 0.5:
                self.emit('lin1', [sv], (n, n), amag, f='vecsym')
        else:
            # tuple-valued: unpack (ends with a failing __getitem__ on a tracer node)
            if f in ('eigh', 'svd'):
                # distinct eigen/singular values whatever the input: a fixed diagonal spread
                # whose gaps (25) exceed twice the norm of X^T X (<= n^2 <= 9, entries of X in [-1, 1])
                spread = {'ca': numpy.diag([25.0 * (i + 1) for i in range(n)]).tolist()}
                A = self.emit('add', [A, spread], (n, n), amag + 25.0 * n, t=True, p=True)
                amag = self.regs[A].mag
            shapes = {'qr': [(n, n), (n, n)], 'qr_full': [(n, n), (n, n)], 'eigh': [(n,), (n, n)],
                      'lu': [(n, n), (n, n), (n, n)], 'svd': [(n, n), (n,), (n, n)]}[f]
            in_t = f not in NON_T
            T = self.emit('lin1', [A], None, 0.0, t=in_t, kind='tup', f=f)
            L = self.emit('unpack', [T], None, 0.0, t=in_t, kind='lst', elems=shapes)
            for k, sh in enumerate(shapes):
                vec = f == 'eigh' and k == 1 and 'eigh_vectors' in NON_T
                if vec and self.truth_only:
                    continue
                if rng.random() < 0.8 or k == 0:
                    self.emit('pick', [L], sh, amag, t=in_t and not vec, k=k, flat=True)
        return True

    # ---- kwargs / nopb / tryop ----------------------------------------------
    def block_kwargs(self):
        rng = self.rng
        a = self.pick_reg(lambda q: len(q.sh) == 2 and q.sh[0] != 1 and q.flat)
        if a is None:
            v = self.pick_reg(lambda q: len(q.sh) == 1 and q.sh[0] == 4 and q.flat)
            if v is None:
                v = 0
                if self.n_in[0] != 4:
                    v = self.const_linear(0, 4)
            a = self.emit('reshape', [v], (2, 2), self.regs[v].mag, t=True, p=True, shape=[2, 2])
        ra = self.regs[a]
        axis = rng.choice([0, 0, -2, 1, -1])
        n = rng.choice([None, ra.sh[axis]])
        inv = rng.random() < 0.15 and not self.truth_only
        f = self.emit('fft', [a], ra.sh, ra.mag * max(ra.sh), t=False, cplx=True, n=n, axis=axis, inv=inv)
        self.emit('real', [f], ra.sh, ra.mag * max(ra.sh), t=False)
        return True

    def block_nopb(self):
        rng = self.rng
        w = rng.choice(['triu', 'tril', 'tile', 'ifft'])
        if w in ('triu', 'tril'):
            a = self.pick_reg(lambda q: len(q.sh) == 2)
            if a is None:
                v = self.pick_reg(lambda q: len(q.sh) == 1 and q.sh[0] <= 4 and q.mag <= 100)
                a = self.emit('outer', [v, v], (self.regs[v].sh[0],) * 2, self.regs[v].mag ** 2, t=True, p=True)
            self.emit('lin1', [a], self.regs[a].sh, self.regs[a].mag, t=False, f=w)
        elif w == 'tile':
            v = self.pick_reg(lambda q: len(q.sh) == 1 and q.sh[0] <= 3)
            if v is None:
                return False
            self.emit('tile', [v], (2 * self.regs[v].sh[0],), self.regs[v].mag, t=False, reps=2)
        else:
            v = self.pick_reg(lambda q: len(q.sh) == 1)
            f = self.emit('fft', [v], self.regs[v].sh, self.regs[v].mag, t=False, cplx=True, n=None, axis=-1,
                          inv=True)
            self.emit('real', [f], self.regs[v].sh, self.regs[v].mag, t=False)
        return True

    def block_tryop(self):
        rng = self.rng
        w = rng.choice(['rpow', 'baddot', 'tanh', 'badindex', 'badsetitem', 'badsetitem'])
        a = self.pick_reg()
        if w == 'badsetitem':
            # an in-place write that raises (index out of range, or a value that does not fit
            # the slot) into a buffer the program allocated; the buffer is unchanged
            n = rng.randint(2, 3)
            buf = self.emit('zeros', [0], (n,), 1.0, t=True, p=True, kind='buf', shape=[n])
            v = self.pick_reg(lambda q: len(q.sh) == 1 and q.sh[0] >= 3)
            if v is not None and rng.random() < 0.5:
                ix = slice(0, 2, None)          # three or more entries into two slots
            else:
                v = self.scalar_expr()
                ix = n + rng.randint(0, 2)      # out of range
            self.emit('try', [buf, v], None, 0.0, t=True, p=True, kind='none', what='badsetitem', ix=enc_index(ix))
            s = self.scalar_expr()
            self.emit('setitem', [buf, s], None, 0.0, t=True, p=True, kind='none', ix=enc_index(rng.randrange(n)))
            self.regs[buf].mag = self.regs[s].mag
            self.regs[buf].kind = 'v'
            self.regs[buf].used = False
            return True
        if w == 'baddot':
            m = self.pick_reg(lambda q: len(q.sh) == 2)
            v = self.pick_reg(lambda q: len(q.sh) == 1)
            if m is None or v is None or self.regs[m].sh[1] == self.regs[v].sh[0]:
                w = 'rpow'
            else:
                self.emit('try', [m, v], None, 0.0, t=True, p=True, kind='none', what='baddot')
                return True
        if w == 'badindex':
            v = self.pick_reg(lambda q: len(q.sh) == 1)
            if v is None:
                w = 'tanh'
            else:
                self.emit('try', [v], None, 0.0, t=True, p=True, kind='none', what='badindex',
                          k=self.regs[v].sh[0] + rng.randint(0, 2))
                return True
        self.emit('try', [a], None, 0.0, t=True, p=True, kind='none', what=w)
        return True

    # ---- known-defect probes (single purpose, never mixed) -------------------
    def build_probe(self):
        rng = self.rng
        f = self.family
        n = self.n_in[0]
        if f == 'dot_matvec':
            k = 2
            v = self.emit('getitem', [0], (k,), 2.0, ix=enc_index(slice(0, k, None)))
            M = self.matrix_from(0, n, k)
            w = rng.choice(['Mv', 'vM', 'Mc'])
            if w == 'Mv':
                d = self.emit('dot', [M, v], (n,), 16.0 * n, t=False)
            elif w == 'vM':
                Mt = self.emit('transpose', [M], (k, n), 4.0 * n)
                d = self.emit('dot', [v, Mt], (n,), 16.0 * n, t=False)
            else:
                d = self.emit('dot', [M, const_array(rng, (k,))], (n,), 16.0 * n, t=False)
        elif f == 'outer_distinct':
            k = max(2, n - 1)
            a = self.emit('getitem', [0], (k,), 2.0, ix=enc_index(slice(0, k, None)))
            if n == 2:
                b = self.emit('getitem', [0], (k,), 2.0, ix=enc_index(slice(None, None, -1)))
            else:
                b = self.emit('getitem', [0], (k,), 2.0, ix=enc_index(slice(n - k, n, None)))
            d = self.emit('outer', [a, b], (k, k), 4.0, t=False)
        elif f == 'reshape_noncontig':
            M = self.matrix_from(0, n, n)
            Mt = self.emit('transpose', [M], (n, n), 4.0, flat=False)
            d = self.emit('reshape', [Mt], (n * n,), 4.0, t=False, shape=[n * n])
        elif f == 'sum_axis0':
            M = self.matrix_from(0, n, n)
            C = self.emit('mul', [M, const_array(rng, (n, n))], (n, n), 8.0)
            d = self.emit('sum', [C], (n,), 8.0 * n, t=False, axis=0)
        elif f == 'pow_negint':
            s = self.emit('un', [0], (n,), 1.0, f='sin')
            p = self.emit('add', [s, {'c': 2.5}], (n,), 3.5, pos=(1.5, 3.5))
            d = self.emit('pow', [p, {'ci': rng.choice([-1, -2, -3])}], (n,), 1.0, t=False)
        elif f == 'setitem_bcast':
            a = self.emit('getitem', [0], (), 2.0, ix=enc_index(0))
            b = self.emit('getitem', [0], (), 2.0, ix=enc_index(1))
            sc = self.emit('mul', [a, b], (), 4.0)
            buf = self.emit('zeros', [0], (3,), 1.0, kind='buf', shape=[3])
            lo = rng.randint(0, 1)
            self.emit('setitem', [buf, sc], None, 0.0, t=False, kind='none', ix=enc_index(slice(lo, lo + 2, None)))
            self.regs[buf].kind = 'v'
            self.regs[buf].mag = 4.0
            self.regs[buf].used = False
        else:
            raise ValueError(f)
        self.finish()

    # ---- driver ---------------------------------------------------------------
    def build(self):
        if self.family in PROBES:
            self.build_probe()
            return self.program()
        rng = self.rng
        fam = self.family
        if self.prelude:
            # executed BEFORE the inputs are wrapped: an explicitly wrapped constant and a buffer
            # typed by it (a plain float buffer, so such programs are run with ndarray operands)
            cst = self.emit('wrapc', [], (), 2.0, t=False, p=False, value=_q(rng, -2.0, 2.0, 0.25))
            shape = (rng.randint(2, 4),)
            self.pre_buf = self.emit('zeros', [cst], shape, 1.0, t=False, p=False, kind='buf', shape=list(shape))
            self.npre = len(self.instrs)
        base = [(self.op_binary, 6), (self.op_powint, 1.5), (self.op_neg, 0.7), (self.op_sum, 1.5),
                (self.op_dot, 1.5), (self.op_outer_same, 0.8), (self.op_reshape, 0.8),
                (self.op_transpose, 0.7), (self.op_getitem, 2.5), (self.op_divconst, 0.7)]
        if fam != 'poly':
            base.append((self.op_smooth, 3.0 if fam == 'smooth' else 1.0))
        block = {'buffer': self.block_buffer, 'linalg': self.block_linalg, 'kwargs': self.block_kwargs,
                 'nopb': self.block_nopb, 'tryop': self.block_tryop}.get(fam)
        n_blocks = 0
        if block is not None:
            n_blocks = 1 if fam in ('kwargs', 'nopb') else rng.randint(1, 2)
        block_at = sorted(rng.randint(0, max(0, self.size - 6)) for _ in range(n_blocks))
        budget = self.size
        tries = 0
        total_w = sum(w for _, w in base)
        while len(self.instrs) < budget - 4 and tries < 4 * budget:
            tries += 1
            if block_at and len(self.instrs) >= block_at[0]:
                block_at.pop(0)
                block()
                continue
            x = rng.random() * total_w
            for fn, w in base:
                x -= w
                if x <= 0:
                    fn()
                    break
        while block_at:
            block_at.pop(0)
            block()
        self.finish()
        return self.program()

    # ---- reduction to the requested output shapes -----------------------------
    def reduce_to(self, r, sh):
        rng = self.rng
        q = self.regs[r]
        if q.sh == sh:
            return r
        if sh == ():
            if len(q.sh) == 2 and q.sh[0] == q.sh[1] and rng.random() < 0.3 and q.mag * q.sh[0] <= MAG_CAP:
                return self.emit('lin1', [r], (), q.mag * q.sh[0], f='trace', p=True)
            if rng.random() < 0.6:
                m = q.mag * 2.0
                if m * _prod(q.sh) > MAG_CAP:
                    return None
                c = const_array(rng, q.sh)
                w = self.emit('mul', [r, c] if rng.random() < 0.5 else [c, r], q.sh, m, t=True, p=True)
                return self.emit('sum', [w], (), m * _prod(q.sh), t=True, p=True, axis=None)
            if q.mag * _prod(q.sh) > MAG_CAP:
                return None
            return self.emit('sum', [r], (), q.mag * _prod(q.sh), t=True, p=True, axis=None)
        M = sh[0]
        if q.sh == ():
            c = const_array(rng, (M,))
            return self.emit('mul', [r, c] if rng.random() < 0.5 else [c, r], (M,), q.mag * 2.0, t=True, p=True)
        if len(q.sh) == 2:
            if q.mag * q.sh[1] > MAG_CAP:
                return None
            r = self.emit('sum', [r], (q.sh[0],), q.mag * q.sh[1], t=True, p=True, axis=1)
            q = self.regs[r]
            if q.sh == sh:
                return r
        if q.sh[0] > M and rng.random() < 0.5:
            lo = rng.randint(0, q.sh[0] - M)
            return self.emit('getitem', [r], (M,), q.mag, t=True, p=True, ix=enc_index(slice(lo, lo + M, None)))
        if q.mag * 2.0 * q.sh[0] > MAG_CAP:
            return None
        return self.const_linear(r, M)

    def finish(self):
        rng = self.rng
        self.off_prob = 0.0          # what is reduced into the outputs is recorded
        if self.pre_buf is not None:
            self.regs[self.pre_buf].kind = 'v'
            self.pre_buf = None
        self.outputs = []
        for sh in self.out_shapes:
            leaves = [i for i in self.values() if not self.regs[i].used and i >= len(self.n_in)]
            if not leaves:
                leaves = self.values()[-2:]
            rng.shuffle(leaves)
            leaves = sorted(leaves[:3])
            if rng.random() < 0.3 and sh == () and self.family == 'buffer':
                pass
            acc = None
            for l in leaves:
                r = self.reduce_to(l, sh)
                if r is None:
                    continue
                if acc is None:
                    acc = r
                else:
                    m = self.regs[acc].mag + self.regs[r].mag
                    if m > MAG_CAP:
                        continue
                    acc = self.emit('add', [acc, r], sh, m, t=True, p=True)
            if acc is None:
                acc = self.reduce_to(0, sh)
            if acc < len(self.n_in) or self.instrs[acc - len(self.n_in)].get('off'):
                # an output must be a computed, recorded node: not the independent itself and not
                # a value that was computed while recording was off (a constant of the graph)
                acc = self.emit('mul', [acc, {'c': 1.5}], self.regs[acc].sh, self.regs[acc].mag * 1.5, t=True, p=True)
            self.outputs.append(acc)

    def program(self):
        return {
            'family': self.family,
            'n_in': list(self.n_in),
            'out_shapes': [list(s) for s in self.out_shapes],
            'instrs': self.instrs,
            'outputs': list(self.outputs),
            'truth': all(i['t'] for i in self.instrs),
            'exact': all(i['p'] for i in self.instrs) and not self.stale_views,
            'stale_views': self.stale_views,
            'frozen': any(i.get('off') for i in self.instrs),
            'npre': self.npre,
        }


def gen_program(rng, family, n_in, out_shapes, size, truth_only=False, off_prob=0.0, prelude=False):
    return Gen(rng, family, n_in, out_shapes, size, truth_only, off_prob, prelude).build()


def run_program_frozen(prog, inputs, B, frozen_regs):
    """Like run_program, but instructions that were executed with recording off take the value
    they had at recording time (register `frozen_regs[i]`) instead of being executed."""
    regs = list(inputs)
    for ins in prog['instrs']:
        if ins.get('off'):
            regs.append(frozen_regs[len(regs)])
        else:
            regs.append(exec_instr(ins, regs, B))
    return regs


def features(prog):
    """Coarse feature set of a program, used to describe and match findings."""
    f = set()
    writes = {}
    for j, ins in enumerate(prog['instrs']):
        op = ins['op']
        if op in ('un', 'lin1', 'spf'):
            f.add(ins['f'])
        elif op == 'try':
            f.add('try_' + ins['what'])
        elif op == 'fft':
            f.add('ifft' if ins.get('inv') else 'fft')
        else:
            f.add(op)
        if op == 'setitem':
            b = ins['a'][0]
            if writes.get(b):
                f.add('overwrite')
            writes[b] = True
        if op == 'pow':
            e = ins['a'][1]
            v = const_value(e)
            if v is not None and v < 0 and float(v).is_integer():
                f.add('pow_negint')
        if op == 'dot':
            a, b = ins['a']
            sa = _operand_shape(prog, a)
            sb = _operand_shape(prog, b)
            if sa is not None and sb is not None and len(sa) != len(sb) and \
                    not (isinstance(a, dict) and len(sa) == 2):
                f.add('dot_matvec')
        if op == 'outer' and ins['a'][0] != ins['a'][1]:
            f.add('outer_distinct')
        if op == 'sum' and ins['axis'] == 0 and len(_operand_shape(prog, ins['a'][0]) or ()) == 2:
            f.add('sum_axis0')
    return sorted(f)


def _operand_shape(prog, o):
    n = len(prog['n_in'])
    if isinstance(o, int):
        if o < n:
            return (prog['n_in'][o],)
        sh = prog['instrs'][o - n]['sh']
        return tuple(sh) if sh is not None else None
    if 'ca' in o:
        return numpy.shape(o['ca'])
    return ()


def twin(prog, rng):
    """A program with the same skeleton (same operations, shapes, node count) but other
    constants, indices and keyword arguments: two graphs that differ only in what a cache keyed
    on position, ID, shape or node count cannot see."""
    import copy
    new = copy.deepcopy(prog)
    n0 = len(new['n_in'])

    def shape_of(o):
        return _operand_shape(new, o)
    for ins in new['instrs']:
        op = ins['op']
        # fresh constants of the same form
        a = []
        for o in ins['a']:
            if isinstance(o, dict) and 'ca' in o and op in ('mul', 'dot'):
                # (weights only: the arrays added in the linear-algebra blocks are structure -- 3 I,
                # the eigenvalue spread -- and must stay)
                o = const_array(rng, numpy.shape(o['ca']))
            elif isinstance(o, dict) and ('c' in o or 'cn' in o) and op in ('add', 'sub'):
                k = 'c' if 'c' in o else 'cn'
                v = o[k]
                if abs(v) <= 2.0 and v not in (1.5, 2.5, 0.5):      # keep the domain-safety offsets
                    o = {k: _q(rng, -2.0, 2.0, 0.25)}
            a.append(o)
        ins['a'] = a
        if op == 'sum':
            sh = shape_of(ins['a'][0])
            if sh is not None and len(sh) == 2 and sh[0] == sh[1] and ins['axis'] is not None:
                ins['axis'] = {0: 1, 1: 0, -1: -2, -2: -1}[ins['axis']]
        elif op == 'fft':
            sh = shape_of(ins['a'][0])
            if sh is not None and len(sh) == 2 and sh[0] == sh[1]:
                ins['axis'] = {0: 1, 1: 0, -1: -2, -2: -1}[ins['axis']]
                if ins['n'] is not None:
                    ins['n'] = sh[0]
        elif op in ('getitem', 'setitem') and isinstance(ins['ix'], int):
            sh = shape_of(ins['a'][0])
            if sh is not None and len(sh) == 1 and sh[0] > 1 and op == 'getitem':
                ins['ix'] = (ins['ix'] + 1) % sh[0]
    return new
