"""Per-run coverage summary (what the evidence file is aggregated from)."""
from . import programs


def _bucket(n):
    if n is None:
        return '-'
    return '1' if n == 1 else ('2' if n == 2 else '3+')


def summarise(run, res):
    """Compact, picklable record of one simulated run."""
    plan = run['plan']
    steps = {s['seq']: s for s in plan}
    events = res['slog']['events'] if res.get('slog') else []
    nC = len(run['clients'])
    ops = {}
    armed = {}
    fired = {}
    natural = {'fwd_exc': 0, 'rev_exc': 0, 'drv_exc': 0, 'rec_try': 0}
    transitions = set()
    # abstract per-client state
    last_fwd = ['none'] * nC
    sweeps = [0] * nC
    sweep_failed = [False] * nC
    calls_on = [0] * nC
    other_since = [0] * nC
    nontrivial = False
    any_fired = False
    mutation = 0
    probes = {}
    rec_started = [False] * nC
    rec_done = [False] * nC
    last_rec_client = None
    last_fault_on = [False] * nC
    last_DP = [None] * nC

    def probe(name):
        probes[name] = probes.get(name, 0) + 1
    for ev in events:
        st = steps[ev['seq']]
        c = ev['c']
        op = ev['op']
        fam = run['clients'][c]['program']['family']
        kind = op
        if op == 'drv':
            kind = 'drv:' + st['name']
        elif op == 'fwd':
            if st.get('wrong_len'):
                kind = 'fwd:wrong_len'
            elif st.get('errstate'):
                kind = 'fwd:poison'
            elif st.get('rep'):
                kind = 'fwd:repeat'
            elif any(i.get('mode') == 'feedback' for i in st['inputs']):
                kind = 'fwd:feedback'
            elif any(i.get('mode') == 'overwrite' for i in st['inputs']):
                kind = 'fwd:overwritten_object'
        elif op == 'rev' and st.get('bad'):
            kind = 'rev:bad_seed'
        ops[kind] = ops.get(kind, 0) + 1
        ptr = ev.get('ptr')
        rec = 'off' if ptr is None else ('this' if ptr == c else 'other')
        if op in ('fwd', 'rev', 'drv'):
            if rec == 'other':
                probe('evaluation while another graph is recording')
            elif rec == 'this':
                probe('evaluation while its own graph is (still) the recording target')
            if op == 'rev' and sweeps[c] >= 1 and not sweep_failed[c]:
                probe('second or later reverse sweep on one forward evaluation')
            if op == 'rev' and sweep_failed[c] and last_fwd[c] != 'failed':
                probe('reverse sweep right after a reverse sweep that did not complete')
            if op != 'rev' and last_fwd[c] == 'failed':
                probe('evaluation right after a forward evaluation that did not complete')
            if last_fault_on[c]:
                probe('call right after a call in which an injected fault fired')
            if op == 'fwd' and sweeps[c] >= 1:
                probe('forward evaluation after reverse sweeps')
            if other_since[c] >= 1 and calls_on[c] >= 1:
                probe('call after operations on another graph since this graph\'s previous call')
            sw = '0' if sweeps[c] == 0 else ('1' if sweeps[c] == 1 else '2+')
            transitions.add('%s|rec=%s|fwd=%s|sweeps=%s|failed=%d|%s' % (
                fam, rec, last_fwd[c], sw, int(sweep_failed[c]), kind.split(':')[0] if op != 'drv' else kind))
            if calls_on[c] >= 2 or other_since[c] >= 1 or any_fired:
                nontrivial = True
            f = st.get('fault')
            if f:
                armed[f['kind']] = armed.get(f['kind'], 0) + 1
                if ev.get('fired'):
                    fired[f['kind']] = fired.get(f['kind'], 0) + 1
                    any_fired = True
            ok = ev['out'][0] == 'ok'
            if not ok and not ev.get('fired'):
                natural[op + '_exc'] += 1
            if ev.get('caller_owned_mutation'):
                mutation += 1
            last_fault_on[c] = bool(f and ev.get('fired'))
            if op == 'fwd' and ok:
                i0 = st['inputs'][0]
                dp = (i0['kind'], i0['D'], i0['P'])
                if last_DP[c] is not None and last_DP[c] != dp:
                    probe('forward evaluation at another kind/D/P than the previous one')
                last_DP[c] = dp
                recc = run['clients'][c]['rec']
                if (recc['kind'], recc.get('D'), recc.get('P')) != dp:
                    probe('replay with a kind/D/P other than the recording one')
            if op == 'drv' and run['clients'][c]['rec']['kind'] == 'utpm':
                probe('driver on a graph recorded with a Taylor polynomial')
            if op == 'fwd':
                if ok:
                    i0 = st['inputs'][0]
                    last_fwd[c] = 'nd' if i0['kind'] == 'nd' else 'utpm[D%s,P%s]' % (_bucket(i0['D']), _bucket(i0['P']))
                else:
                    last_fwd[c] = 'failed'
                sweeps[c] = 0
                sweep_failed[c] = False
            elif op == 'drv':
                last_fwd[c] = 'drv' if ok else 'failed'
                sweeps[c] = 0 if st['name'] == 'jac_vec' else 1
                sweep_failed[c] = not ok
            else:
                sweeps[c] += 1
                sweep_failed[c] = not ok
            calls_on[c] += 1
            other_since[c] = 0
            for o in range(nC):
                if o != c:
                    other_since[o] += 1
        else:
            transitions.add('%s|rec=%s|%s' % (fam, rec, op))
            for o in range(nC):
                if o != c:
                    other_since[o] += 1
            if op == 'new_graph' and any(rec_started[o] and not rec_done[o] for o in range(nC) if o != c):
                probe('graph constructed while another graph is being recorded')
            if op == 'seal':
                rec_done[c] = True
            if op == 'rec_off':
                probe('operations on traced operands with recording off')
            if op == 'toff':
                probe('trace_off through a graph that is not recording')
            if op == 'rec':
                if rec_started[c] and last_rec_client is not None and last_rec_client != c:
                    probe('recording resumed after another graph recorded in between')
                if st.get('begin') == 'trace_on' and rec_started[c]:
                    probe('recording resumed with trace_on')
                rec_started[c] = True
                last_rec_client = c
                prog = run['clients'][c]['program']
                for item in ev.get('rec_vals', []):
                    if prog['instrs'][item['i']]['op'] in ('try', 'unpack'):
                        natural['rec_try'] += 1
    return {
        'seed': run['seed'],
        'digest': res.get('digest'),
        'steps': len(events),
        'ops': ops,
        'armed': armed,
        'fired': fired,
        'natural': natural,
        'transitions': sorted(transitions),
        'nontrivial': nontrivial,
        'mode': run['config']['mode'],
        'K': nC,
        'families': [c['program']['family'] for c in run['clients']],
        'features': [programs.features(c['program']) for c in run['clients']],
        'stats': res.get('stats', {}),
        'caller_owned_mutation': mutation,
        'probes': probes,
        'invalid': res.get('invalid'),
    }
