"""Seed -> (programs, plan).  Pure Python: no algopy, no numpy RNG, no clock.
One `random.Random` seeded from the (focus, seed) pair decides everything."""
import random

from . import programs

DRIVERS = ('gradient', 'jacobian', 'jacobian_utpm', 'jac_vec', 'vec_jac', 'hessian', 'hess_vec',
           'vec_hess', 'vec_hess_vec')
SCALAR_DRIVERS = ('gradient', 'hessian', 'hess_vec')
VECTOR_DRIVERS = ('jacobian', 'jacobian_utpm', 'jac_vec', 'vec_jac', 'vec_hess', 'vec_hess_vec')

FAMILY_WEIGHTS = {
    'C04': {'poly': 4, 'smooth': 3, 'buffer': 5, 'linalg': 2, 'kwargs': 0.3, 'nopb': 0.3, 'tryop': 0.5},
    'C05': {'poly': 3, 'smooth': 3, 'buffer': 5, 'linalg': 3, 'kwargs': 2, 'nopb': 1, 'tryop': 2},
    'C06': {'poly': 2, 'smooth': 4, 'buffer': 5, 'linalg': 3, 'kwargs': 1, 'nopb': 1.5, 'tryop': 1},
}
PROBE_RATE = {'C04': 0.02, 'C05': 0.0, 'C06': 0.0}


def _q(rng, lo, hi, step):
    return rng.randint(int(round(lo / step)), int(round(hi / step))) * step


def wchoice(rng, table):
    items = [(k, w) for k, w in table if w > 0]
    tot = sum(w for _, w in items)
    x = rng.random() * tot
    for k, w in items:
        x -= w
        if x <= 0:
            return k
    return items[-1][0]


def point(rng, n):
    return [float(_q(rng, -2.0, 2.0, 0.125)) for _ in range(n)]


def vector(rng, n):
    while True:
        v = [float(_q(rng, -1.0, 1.0, 0.125)) for _ in range(n)]
        if any(v):
            return v


def utpm_values(rng, D, P, n, base=None):
    """Nested list (D, P, n); coefficient 0 is the same point in every
    direction (what a UTPM means)."""
    base = base if base is not None else point(rng, n)
    data = [[list(base) for _ in range(P)]]
    for _ in range(1, D):
        data.append([vector(rng, n) for _ in range(P)])
    return data


def rand_DP(rng):
    return rng.choice([1, 1, 2, 2, 3, 4, 5]), rng.choice([1, 1, 2, 3, 4])


class ClientPlan(object):
    def __init__(self, idx):
        self.idx = idx
        self.state = 'void'
        self.ip = 0
        self.slots = {}
        self.have_fwd = False
        self.last_call = None
        self.last_fwd_kind = None
        self.n_calls = 0
        self.last_x = None        # base point of the previous driver call
        self.last_drv = None
        self.last_base = None     # base points of the previous forward evaluation


def make_client_config(rng, focus, idx):
    fam = wchoice(rng, sorted(FAMILY_WEIGHTS[focus].items()))
    if rng.random() < PROBE_RATE[focus]:
        fam = rng.choice(programs.PROBES)
    probe = fam in programs.PROBES
    if focus == 'C04':
        workload = 'driver'
    else:
        workload = 'driver' if rng.random() < (0.55 if focus == 'C06' else 0.35) else 'multi'
    if probe:
        workload = 'driver'
    N = rng.randint(2, 4)
    if fam in ('reshape_noncontig', 'sum_axis0'):
        N = rng.randint(2, 3)
    if workload == 'driver' and not probe and rng.random() < 0.1:
        # two independents, scalar output: gradient with a list of arrays
        workload = 'driver2'
        n_in = [N, rng.randint(2, 4)]
        outs = [()]
    elif workload == 'driver':
        n_in = [N]
        if rng.random() < 0.5:
            outs = [()]
        else:
            M = rng.choice([1, 2, 3, N, N])
            outs = [(M,)]
    else:
        n_in = [N] if rng.random() < 0.6 else [N, rng.randint(2, 4)]
        outs = [rng.choice([(), (rng.randint(1, 3),)]) for _ in range(rng.choice([1, 1, 2]))]
        if len(n_in) == 1 and rng.random() < 0.3:
            outs = [(N,)]
    size = rng.choice([4, 6, 8, 10, 12, 16, 20, 24, 30])
    truth_only = focus == 'C04' and not probe and rng.random() < 0.8
    # C05 only: programs that compute some values with recording switched off and use them
    # afterwards (the graph captures them as constants); no reverse mode on these graphs
    off_prob = 0.2 if (focus == 'C05' and not probe and rng.random() < 0.12) else 0.0
    if off_prob:
        workload = 'multi'
    # C05 only: buffer programs whose first nodes (a wrapped constant and a buffer typed by it)
    # are recorded before the inputs are wrapped; plain-float buffers, so ndarray operands only
    prelude = focus == 'C05' and fam == 'buffer' and not off_prob and rng.random() < 0.2
    prog = programs.gen_program(rng, fam, n_in, outs, size,
                                truth_only=truth_only, off_prob=off_prob, prelude=prelude)
    if workload in ('multi', 'driver2') and len(n_in) == 2:
        _use_second_input(rng, prog)
    if rng.random() < 0.45 or prelude:
        rec = {'kind': 'nd', 'vals': [point(rng, n) for n in n_in]}
        if rng.random() < 0.2:
            # an integer array as recording point (numpy.array([1, 2, 3])): the results must not
            # depend on the data type the graph was recorded with
            rec['dtype'] = 'int'
            rec['vals'] = [[float(rng.randint(-2, 2)) for _ in range(n)] for n in n_in]
    else:
        D, P = rand_DP(rng)
        rec = {'kind': 'utpm', 'D': D, 'P': P, 'vals': [utpm_values(rng, D, P, n) for n in n_in]}
    return {'program': prog, 'workload': workload, 'rec': rec, 'nd_only': bool(prelude)}


def _use_second_input(rng, prog):
    """Programs are generated over input 0; splice input 1 in by multiplying
    the first output with a reduction of it (keeps everything well-formed)."""
    n0 = len(prog['n_in'])
    instrs = prog['instrs']
    base = n0 + len(instrs)
    out0 = prog['outputs'][0]
    osh = tuple(instrs[out0 - n0]['sh'])
    instrs.append({'op': 'sum', 'a': [1], 'axis': None, 'sh': [], 't': True, 'p': True})
    instrs.append({'op': 'un', 'a': [base], 'f': 'sin', 'sh': [], 't': True, 'p': False})
    instrs.append({'op': 'mul', 'a': [out0, base + 1], 'sh': list(osh), 't': True, 'p': False})
    prog['outputs'][0] = base + 2
    prog['exact'] = False


def make_run(focus, seed):
    rng = random.Random('%s:%d' % (focus, seed))
    if focus == 'C06':
        # the property that is about what earlier (possibly failed) calls leave behind
        mode = wchoice(rng, [('clean', 0.3), ('natural', 0.1), ('inject', 0.6)])
    else:
        mode = wchoice(rng, [('clean', 0.4), ('natural', 0.15), ('inject', 0.45)])
    if focus == 'C05':
        K = wchoice(rng, [(1, 2), (2, 4), (3, 3)])
    else:
        K = wchoice(rng, [(1, 5), (2, 4), (3, 1)])
    clients_cfg = [make_client_config(rng, focus, i) for i in range(K)]
    if K >= 2 and rng.random() < 0.25:
        # twin graphs: same skeleton and node count, other constants / indices / keyword arguments
        import copy
        clients_cfg[1] = copy.deepcopy(clients_cfg[0])
        clients_cfg[1]['program'] = programs.twin(clients_cfg[0]['program'], rng)
        clients_cfg[1]['twin_of'] = 0
    n_steps = rng.choice([8, 12, 16, 24, 32, 45, 60])
    # how child R isolates its reference computations from one another (refs.run_deferred)
    ref_isolation = 'fork' if rng.random() < 0.25 else 'reverse'
    burst = rng.choice([0.0, 0.3, 0.6, 0.85])
    fault_kinds = []
    if mode == 'inject':
        fault_kinds = [k for k in ('node_fwd', 'node_rev', 'line') if rng.random() < 0.6]
        if not fault_kinds:
            fault_kinds = [rng.choice(['node_fwd', 'node_rev', 'line'])]
    p_arm = rng.choice([0.1, 0.15, 0.25])
    max_faults = rng.randint(1, 6 if focus == 'C06' else 4)

    def jitter(w):
        return w * rng.choice([0.0, 0.5, 1.0, 1.0, 2.0])
    W = {
        'fwd': jitter(4.0), 'rev': jitter(4.0), 'drv': jitter(4.0 if focus != 'C05' else 1.5),
        'repeat': jitter(1.0), 'rec_off': jitter(1.0),
        'poison': jitter(0.7) if mode != 'clean' else 0.0,
        'bad_seed': jitter(0.4) if mode != 'clean' else 0.0,
    }
    if W['fwd'] == 0 and W['drv'] == 0:
        W['fwd'] = 2.0
    if focus == 'C04':
        W['drv'] = max(W['drv'], 4.0)

    cl = [ClientPlan(i) for i in range(K)]
    plan = []
    ptr = [None]
    n_faults = [0]
    # fault enumeration is expensive (a few hundred forks): one sweep in about one run in fifteen
    enum_done = [not (focus == 'C06' and mode == 'inject' and rng.random() < 0.11)]
    hints = []
    last_c = [None]

    def prog_of(c):
        return clients_cfg[c.idx]['program']

    def maybe_fault(opkind, drv=None):
        if mode != 'inject' or n_faults[0] >= max_faults or rng.random() >= p_arm:
            return None
        kinds = []
        for k in fault_kinds:
            if k == 'node_fwd' and opkind in ('fwd', 'drv'):
                kinds.append(k)
            if k == 'node_rev' and (opkind == 'rev' or (opkind == 'drv' and drv != 'jac_vec')):
                kinds.append(k)
            if k == 'line':
                kinds.append(k)
        if not kinds:
            return None
        n_faults[0] += 1
        # line faults: uniformly over the executed line events ('event'), or uniformly over the
        # distinct source lines the call visits and then over that line's visits ('loc') -- the
        # latter gives rarely executed lines (one particular kernel) the same chance as hot loops
        return {'kind': rng.choice(kinds), 'frac': rng.random(), 'frac2': rng.random(),
                'by': rng.choice(['event', 'loc', 'loc']), 'exc': rng.choice(['exc', 'base'])}

    def input_spec(c, j, n, kind, D, P, vals):
        """Which caller-owned object carries the values: a new one, or one the
        caller used before and has overwritten in place."""
        sid = '%d:%d' % (j, rng.randint(0, 1))
        have = c.slots.get(sid)
        mode_ = 'new'
        if have == (kind, D, P) and rng.random() < 0.5:
            mode_ = 'overwrite'
        c.slots[sid] = (kind, D, P)
        return {'slot': sid, 'mode': mode_, 'kind': kind, 'D': D, 'P': P, 'val': vals}

    def emit_fwd(c, poison=False):
        prog = prog_of(c)
        nd_only = clients_cfg[c.idx].get('nd_only')
        if rng.random() < 0.35 or nd_only:
            kind, D, P = 'nd', None, None
        else:
            kind = 'utpm'
            D, P = rand_DP(rng)
        if c.last_fwd_kind == (kind, D, P) and rng.random() < 0.5 and not nd_only:
            kind = 'utpm'
            D, P = rand_DP(rng)
        feedback = False
        if (not poison and len(prog['n_in']) == 1 and len(prog['out_shapes']) == 1
                and prog['out_shapes'][0] == [prog['n_in'][0]] and c.last_fwd_kind is not None
                and not prog.get('frozen')     # (a returned view may share memory with a frozen constant)
                and c.last_fwd_kind[0] in ('nd', 'utpm') and rng.random() < 0.4):
            # fixed-point style use: the object the previous evaluation returned is passed
            # straight back in (same kind, D, P; the values are whatever it holds by then)
            feedback = True
            kind, D, P = c.last_fwd_kind
        step = {'op': 'fwd', 'c': c.idx, 'api': rng.choice(['function', 'pushforward']), 'errstate': False,
                'wrong_len': False}
        ins = []
        # sometimes the same base point as the previous evaluation, with other directions /
        # higher coefficients or another kind: a result must not be keyed on the point alone
        same_base = c.last_base is not None and not poison and rng.random() < 0.25
        bases = []
        for j, n in enumerate(prog['n_in']):
            base = list(c.last_base[j]) if same_base else point(rng, n)
            bases.append(base)
            if kind == 'nd':
                vals = list(base)
            else:
                vals = utpm_values(rng, D, P, n, base=base)
            ins.append(input_spec(c, j, n, kind, D, P, vals))
        if kind == 'nd' and not poison and not feedback and rng.random() < 0.08:
            # a plain integer array as replay input
            for i in ins:
                i['val'] = [float(int(v)) for v in i['val']]
                i['dtype'] = 'int'
                i['mode'] = 'new'
        if not poison:
            c.last_base = bases
        if feedback:
            ins[0]['mode'] = 'feedback'
        if poison:
            # (a wrong-*length* input is not in the vocabulary: the drivers take the
            # output size from the dependent's current value by design, and C05/C06
            # quantify over inputs of the recorded coefficient shape only)
            bad = rng.choice([1e200, -1e200, float('inf'), 1e308])
            j = rng.randrange(len(ins))
            i = rng.randrange(prog['n_in'][j])
            if kind == 'nd':
                ins[j]['val'][i] = bad
            else:
                for p in range(P):
                    ins[j]['val'][0][p][i] = bad
            step['errstate'] = rng.random() < 0.7
        step['inputs'] = ins
        step['fault'] = None if poison else maybe_fault('fwd')
        if (focus == 'C06' and mode == 'inject' and not poison and not feedback and step['fault'] is None
                and not enum_done[0] and c.have_fwd and rng.random() < 0.2):
            # systematic: a forward evaluation at other inputs (another kind/D/P) interrupted at every
            # source line of its kernels in turn, each time followed by this evaluation
            if rng.random() < 0.3:
                ek, eD, eP = 'nd', None, None
            else:
                ek = 'utpm'
                eD, eP = rand_DP(rng)
            step['enum'] = {'cap': 300, 'inputs': [
                {'kind': ek, 'D': eD, 'P': eP,
                 'val': point(rng, n) if ek == 'nd' else utpm_values(rng, eD, eP, n)} for n in prog['n_in']]}
            enum_done[0] = True
        c.have_fwd = True
        c.last_fwd_kind = (kind, D, P)
        c.last_call = step
        plan.append(step)
        if kind == 'utpm' and rng.random() < 0.6:
            for _ in range(rng.randint(1, 3)):
                hints.append((c.idx, 'rev'))
        if step['fault'] is not None:
            hints.append((c.idx, rng.choice(['drv', 'fwd'])))

    def emit_rev(c, bad=False):
        step = {'op': 'rev', 'c': c.idx, 'subseed': rng.randrange(1 << 30), 'bad': bad,
                'reuse_seed': (not bad) and rng.random() < 0.5,
                'fault': None if bad else maybe_fault('rev')}
        if (focus == 'C06' and mode == 'inject' and not bad and step['fault'] is None and not enum_done[0]
                and rng.random() < 0.3):
            # once in a while a systematic sweep over *all* interrupt points of one reverse sweep
            step['enum'] = {'subseed': rng.randrange(1 << 30), 'cap': 400}
            step['reuse_seed'] = False
            enum_done[0] = True
        c.last_call = step
        plan.append(step)
        r = rng.random()
        if r < 0.35:
            hints.append((c.idx, 'rev'))
        elif r < 0.6:
            hints.append((c.idx, 'fwd'))
            hints.append((c.idx, 'rev'))
        if step['fault'] is not None:
            # first another bare sweep on the same forward state, then a fresh evaluation
            hints.insert(0, (c.idx, 'rev'))
            hints.append((c.idx, rng.choice(['drv', 'fwd'])))
            hints.append((c.idx, 'rev'))

    def emit_drv(c):
        prog = prog_of(c)
        if clients_cfg[c.idx]['workload'] == 'driver2':
            step = {'op': 'drv', 'c': c.idx, 'name': 'gradient_list', 'x': [point(rng, n) for n in prog['n_in']],
                    'v': None, 'w': None, 'xlist': True}
            step['fault'] = maybe_fault('drv', 'gradient')
            c.have_fwd = True
            c.last_fwd_kind = ('drv', 'gradient_list', None)
            c.last_call = step
            plan.append(step)
            if rng.random() < 0.3:
                hints.append((c.idx, 'rev'))
            return
        N = prog['n_in'][0]
        osh = prog['out_shapes'][0]
        if len(osh) == 0:
            names = list(SCALAR_DRIVERS) + ['jac_vec', 'gradient', 'hessian']
        else:
            names = ['jacobian', 'jacobian_utpm', 'jac_vec', 'vec_jac', 'vec_hess', 'jacobian']
            if osh[0] == N:
                names.append('vec_hess_vec')
                names.append('vec_hess_vec')
        name = rng.choice(names)
        M = 1 if len(osh) == 0 else osh[0]
        # sometimes the previous driver's point again, with other vectors v, w or another driver
        same_x = c.last_x is not None and rng.random() < 0.35
        x = list(c.last_x) if same_x else point(rng, N)
        c.last_x = x
        if same_x and c.last_drv in names and rng.random() < 0.6:
            name = c.last_drv       # same driver, same point, other vectors
        c.last_drv = name
        step = {'op': 'drv', 'c': c.idx, 'name': name, 'x': list(x), 'v': None, 'w': None,
                'xlist': False}
        if name == 'gradient' and rng.random() < 0.25:
            step['xlist'] = True
        if name == 'jacobian_utpm':
            D, P = rng.choice([1, 2, 2, 3]), rng.choice([1, 1, 2, 3])
            step['x'] = utpm_values(rng, D, P, N, base=x)
            step['D'] = D
            step['P'] = P
        if name in ('jac_vec', 'hess_vec', 'vec_hess_vec'):
            step['v'] = vector(rng, N)
        if name in ('vec_jac', 'vec_hess', 'vec_hess_vec'):
            step['w'] = vector(rng, M)
        step['fault'] = maybe_fault('drv', name)
        c.have_fwd = True
        c.last_fwd_kind = ('drv', name, None)
        c.last_call = step
        plan.append(step)
        if rng.random() < 0.3 and name != 'jac_vec':
            hints.append((c.idx, 'rev'))
        if step['fault'] is not None:
            hints.append((c.idx, rng.choice(['drv', 'fwd'])))

    def emit_repeat(c):
        if c.last_call is None:
            return False
        for _ in range(rng.randint(1, 2)):
            step = _copy(c.last_call)
            step['rep'] = True
            step['fault'] = None
            if step['op'] == 'fwd':
                for i in step['inputs']:
                    # same values: either a brand-new object or the very same one
                    i['mode'] = rng.choice(['new', 'same'])
            if step['op'] == 'rev' and not step.get('bad'):
                # the same seed objects passed again untouched, or fresh objects with the same values
                step['same_seed'] = rng.random() < 0.6
                step['reuse_seed'] = False
                step.pop('enum', None)
            plan.append(step)
        return True

    def scratch_instrs(c, k):
        prog = prog_of(c)
        n0 = len(prog['n_in'])
        avail = list(range(n0))
        for j in range(c.ip):
            ins = prog['instrs'][j]
            if ins['sh'] is not None and ins['op'] not in ('fft',):
                avail.append(n0 + j)
        out = []
        # attribute reads with recording off on a register the program is going to read the same
        # attribute of later (x.T before the recorded x.T): whatever the access leaves on the
        # node must not stand in for the recorded operation
        ahead = [ins['a'][0] for ins in prog['instrs'][c.ip:]
                 if ins['op'] == 'transpose' and ins.get('attr') and ins['a'][0] in avail]
        twod = [r for r in avail if r >= n0 and len(prog['instrs'][r - n0]['sh']) == 2]
        for _ in range(k):
            r = rng.choice(avail)
            w = rng.choice(['mul', 'sin', 'add', 'neg', 'T'])
            if w == 'T':
                if ahead and rng.random() < 0.7:
                    r = rng.choice(ahead)
                elif twod:
                    r = rng.choice(twod)
                else:
                    w = 'neg'
            if w == 'T':
                out.append({'op': 'transpose', 'a': [r], 'attr': True})
            elif w == 'mul':
                out.append({'op': 'mul', 'a': [r, {'c': 2.0}]})
            elif w == 'sin':
                out.append({'op': 'un', 'f': 'sin', 'a': [r]})
            elif w == 'add':
                out.append({'op': 'add', 'a': [{'c': 1.0}, r]})
            else:
                out.append({'op': 'un', 'f': 'neg', 'a': [r]})
        return out

    def tick():
        # choose client
        if hints and rng.random() < 0.75:
            ci, want = hints.pop(0)
            c = cl[ci]
        else:
            want = None
            if last_c[0] is not None and rng.random() < burst:
                c = cl[last_c[0]]
            else:
                c = rng.choice(cl)
        last_c[0] = c.idx
        prog = prog_of(c)
        n_ins = len(prog['instrs'])
        if c.state == 'void':
            plan.append({'op': 'new_graph', 'c': c.idx})
            c.state = 'fresh'
            ptr[0] = c.idx
            return
        if ptr[0] is not None and ptr[0] != c.idx and rng.random() < 0.06:
            # trace_off() through a graph that is not the one recording: recording is a
            # process-global switch, so this turns it off for whoever had it
            plan.append({'op': 'toff', 'c': c.idx})
            ptr[0] = None
            return
        if c.state in ('fresh', 'recording'):
            if c.state == 'recording' and ptr[0] is None and rng.random() < 0.15 * (W['rec_off'] > 0):
                plan.append({'op': 'rec_off', 'c': c.idx, 'instrs': scratch_instrs(c, rng.randint(1, 3))})
                return
            remaining = n_ins - c.ip
            if rng.random() < 0.4:
                k = remaining
            else:
                k = rng.randint(1, remaining) if remaining > 0 else 0
            begin = 'trace_on'
            if ptr[0] == c.idx and rng.random() < 0.8:
                begin = 'implicit'
            end = 'trace_off' if rng.random() < 0.6 else 'leave_on'
            plan.append({'op': 'rec', 'c': c.idx, 'k': k, 'begin': begin, 'end': end,
                         'wrap': c.state == 'fresh'})
            c.state = 'recording'
            c.ip += k
            ptr[0] = None if end == 'trace_off' else c.idx
            if c.ip >= n_ins:
                c.state = 'recorded'
            if end == 'leave_on':
                others = [o for o in cl if o.idx != c.idx and o.state == 'sealed']
                if others and rng.random() < 0.6:
                    hints.append((rng.choice(others).idx, rng.choice(['fwd', 'drv', 'rev'])))
            return
        if c.state == 'recorded':
            toff = 'none'
            if ptr[0] == c.idx:
                toff = rng.choice(['before', 'after', 'none'])
                if toff != 'none':
                    ptr[0] = None
            plan.append({'op': 'seal', 'c': c.idx, 'trace_off': toff})
            c.state = 'sealed'
            if focus == 'C04' or rng.random() < 0.4:
                hints.append((c.idx, 'drv'))
            return
        # sealed
        if c.n_calls >= 2 and ptr[0] != c.idx and rng.random() < 0.04:
            # drop the graph and record the same program again (a loop that builds a new graph
            # per data set): the old graph becomes garbage
            plan.append({'op': 'reset', 'c': c.idx})
            c.state = 'void'
            c.ip = 0
            c.slots = {}
            c.have_fwd = False
            c.last_call = None
            c.last_fwd_kind = None
            c.n_calls = 0
            return
        c.n_calls += 1
        driver_ok = clients_cfg[c.idx]['workload'] in ('driver', 'driver2')
        frozen = bool(prog.get('frozen'))
        table = [('fwd', W['fwd']), ('rev', W['rev'] if (c.have_fwd and not frozen) else 0.0),
                 ('drv', W['drv'] if driver_ok else 0.0),
                 ('repeat', W['repeat'] if c.last_call is not None else 0.0),
                 ('rec_off', W['rec_off'] * 0.3 if ptr[0] is None else 0.0),
                 ('poison', W['poison']), ('bad_seed', W['bad_seed'] if (c.have_fwd and not frozen) else 0.0)]
        if not any(w > 0 for _, w in table):
            table[0] = ('fwd', 1.0)
        if want is not None:
            ok = dict(table).get(want, 0.0) > 0 or want in ('fwd',)
            if want in ('rev', 'drv') and frozen:
                want = 'fwd'
                ok = True
            if want == 'rev' and not c.have_fwd:
                ok = False
            if want == 'drv' and not driver_ok:
                want = 'fwd'
            op = want if ok else wchoice(rng, table)
        else:
            op = wchoice(rng, table)
        if op == 'fwd':
            emit_fwd(c)
        elif op == 'rev':
            emit_rev(c)
        elif op == 'drv':
            emit_drv(c)
        elif op == 'repeat':
            emit_repeat(c)
        elif op == 'rec_off':
            plan.append({'op': 'rec_off', 'c': c.idx, 'instrs': scratch_instrs(c, rng.randint(1, 3))})
        elif op == 'poison':
            emit_fwd(c, poison=True)
            hints.append((c.idx, rng.choice(['rev', 'drv', 'fwd'])))
        elif op == 'bad_seed':
            emit_rev(c, bad=True)

    guard = 0
    while len(plan) < n_steps and guard < 10 * n_steps:
        guard += 1
        tick()
    for i, s in enumerate(plan):
        s['seq'] = i
    return {
        'version': 1,
        'focus': focus,
        'seed': seed,
        'config': {'mode': mode, 'K': K, 'n_steps': n_steps, 'burst': burst, 'fault_kinds': fault_kinds,
                   'ref_isolation': ref_isolation,
                   'p_arm': p_arm, 'max_faults': max_faults, 'weights': W},
        'clients': clients_cfg,
        'plan': plan,
    }


def _copy(o):
    if isinstance(o, dict):
        return {k: _copy(v) for k, v in o.items()}
    if isinstance(o, list):
        return [_copy(v) for v in o]
    return o
