"""Exact reference model for polynomial programs (M-truth, DESIGN 2.5).

Independent of algopy: the same instruction list is run on NumPy *object*
arrays whose elements are second-order jets (value, gradient, Hessian) over an
exact ring -- fractions.Fraction for point evaluations, truncated polynomials
in t over Fraction for the expansion of Jacobian entries along a curve x(t).
Only + - * (integer powers, division by constants) occur, so everything is
exact; the result is rounded to float once at the very end.
"""
from fractions import Fraction

import numpy

from . import programs


class TP(object):
    """Truncated polynomial in t over Fraction: sum_k c[k] t^k mod t^D."""
    __slots__ = ('c',)

    def __init__(self, c):
        self.c = list(c)

    @staticmethod
    def lift(x, D):
        if isinstance(x, TP):
            return x
        return TP([Fraction(x)] + [Fraction(0)] * (D - 1))

    def _co(self, o):
        return TP.lift(o, len(self.c))

    def __add__(self, o):
        o = self._co(o)
        return TP([a + b for a, b in zip(self.c, o.c)])
    __radd__ = __add__

    def __sub__(self, o):
        o = self._co(o)
        return TP([a - b for a, b in zip(self.c, o.c)])

    def __rsub__(self, o):
        return self._co(o) - self

    def __neg__(self):
        return TP([-a for a in self.c])

    def __mul__(self, o):
        o = self._co(o)
        D = len(self.c)
        out = [Fraction(0)] * D
        for i, a in enumerate(self.c):
            if a == 0:
                continue
            for j in range(D - i):
                b = o.c[j]
                if b != 0:
                    out[i + j] += a * b
        return TP(out)
    __rmul__ = __mul__


class Jet(object):
    """Second-order jet in N variables over a commutative ring."""
    __slots__ = ('v', 'g', 'h', 'order')

    def __init__(self, v, g, h, order):
        self.v = v
        self.g = g
        self.h = h
        self.order = order

    @staticmethod
    def const(c, like):
        n = len(like.g)
        z = like.v * 0
        return Jet(z + c, [z] * n, [[z] * n for _ in range(n)] if like.order >= 2 else None, like.order)

    def _co(self, o):
        if isinstance(o, Jet):
            return o
        return Jet.const(_frac(o), self)

    def __add__(self, o):
        if isinstance(o, numpy.ndarray):
            return NotImplemented
        o = self._co(o)
        n = len(self.g)
        h = None
        if self.order >= 2:
            h = [[self.h[i][j] + o.h[i][j] for j in range(n)] for i in range(n)]
        return Jet(self.v + o.v, [a + b for a, b in zip(self.g, o.g)], h, self.order)
    __radd__ = __add__

    def __neg__(self):
        n = len(self.g)
        h = None
        if self.order >= 2:
            h = [[-self.h[i][j] for j in range(n)] for i in range(n)]
        return Jet(-self.v, [-a for a in self.g], h, self.order)

    def __sub__(self, o):
        if isinstance(o, numpy.ndarray):
            return NotImplemented
        return self + (-self._co(o))

    def __rsub__(self, o):
        if isinstance(o, numpy.ndarray):
            return NotImplemented
        return self._co(o) - self

    def __mul__(self, o):
        if isinstance(o, numpy.ndarray):
            return NotImplemented
        o = self._co(o)
        n = len(self.g)
        v = self.v * o.v
        g = [self.g[i] * o.v + self.v * o.g[i] for i in range(n)]
        h = None
        if self.order >= 2:
            h = [[self.h[i][j] * o.v + self.g[i] * o.g[j] + self.g[j] * o.g[i] + self.v * o.h[i][j]
                  for j in range(n)] for i in range(n)]
        return Jet(v, g, h, self.order)
    __rmul__ = __mul__

    def __truediv__(self, o):
        if isinstance(o, Jet):
            raise TypeError('exact model divides by constants only')
        return self * (Fraction(1) / _frac(o))

    def __pow__(self, k):
        if isinstance(k, Jet) or int(k) != k or k < 0:
            raise TypeError('exact model has non-negative integer powers only')
        k = int(k)
        out = Jet.const(Fraction(1), self)
        for _ in range(k):
            out = out * self
        return out


def _frac(x):
    if isinstance(x, Fraction):
        return x
    if isinstance(x, (int, numpy.integer)):
        return Fraction(int(x))
    return Fraction(float(x))


class ExactBackend(object):
    """Same primitive table as programs.AlgopyBackend, on object arrays."""

    def const_array(self, nested):
        a = numpy.array(nested, dtype=float)
        out = numpy.empty(a.shape, dtype=object)
        for idx in numpy.ndindex(*a.shape):
            out[idx] = Fraction(float(a[idx]))
        return out

    def unary(self, name, v):
        if name in ('neg', 'negative'):
            return -v
        if name == 'square':
            return v * v
        raise TypeError('not polynomial: %s' % name)

    def sum(self, v, axis):
        return numpy.sum(v, axis=axis)

    def dot(self, a, b):
        return numpy.dot(a, b)

    def outer(self, a, b):
        return numpy.outer(a, b)

    def reshape(self, v, shape):
        return numpy.reshape(v, shape)

    def transpose(self, v):
        return numpy.transpose(v)

    def _filled(self, shape, like, c):
        one = like.ravel()[0]
        out = numpy.empty(shape, dtype=object)
        for idx in numpy.ndindex(*shape):
            out[idx] = Jet.const(Fraction(c), one)
        return out

    def zeros(self, shape, like):
        return self._filled(shape, like, 0)

    def ones(self, shape, like):
        return self._filled(shape, like, 1)

    def linalg1(self, name, v):
        if name == 'trace':
            return numpy.trace(v)
        raise TypeError('not polynomial: %s' % name)

    def solve(self, a, b):
        raise TypeError('not polynomial')

    def fft(self, *a, **k):
        raise TypeError('not polynomial')

    real = tile = tanh = special = fft


def _inputs(point_rings, order):
    """point_rings: list over the N coordinates of ring elements."""
    n = len(point_rings)
    one = point_rings[0] * 0 + 1
    zero = point_rings[0] * 0
    x = numpy.empty((n,), dtype=object)
    for i in range(n):
        g = [one if j == i else zero for j in range(n)]
        h = [[zero] * n for _ in range(n)] if order >= 2 else None
        x[i] = Jet(point_rings[i], g, h, order)
    return x


def _run(prog, x):
    regs = programs.run_program(prog, [x], ExactBackend())
    out = regs[prog['outputs'][0]]
    out = numpy.atleast_1d(numpy.asarray(out, dtype=object)).copy()
    # entries that never met an input (a plain constant written into a buffer) are constants
    for idx in numpy.ndindex(*out.shape):
        e = out[idx]
        if isinstance(e, numpy.ndarray) and e.shape == ():
            e = e.item()
        if not isinstance(e, Jet):
            e = Jet.const(_frac(e), x[0])
        out[idx] = e
    return out


def point_derivatives(prog, x):
    """Exact value, Jacobian (M,N) and Hessians (M,N,N) at the float point x,
    as float arrays.  Single input, single output."""
    pts = [Fraction(float(v)) for v in x]
    n = len(pts)
    y = _run(prog, _inputs(pts, 2)).ravel()
    M = len(y)
    val = numpy.array([float(e.v) for e in y])
    J = numpy.array([[float(e.g[j]) for j in range(n)] for e in y]).reshape(M, n)
    H = numpy.array([[[float(e.h[i][j]) for j in range(n)] for i in range(n)] for e in y]).reshape(M, n, n)
    return val, J, H


def jacobian_along_curve(prog, data):
    """data: float array (D, P, N) of a UTPM argument.  Returns the exact
    Taylor coefficients of every Jacobian entry along each curve, as a float
    array (D, P, M, N)."""
    D, P, N = data.shape
    out = None
    for p in range(P):
        pts = [TP([Fraction(float(data[d, p, i])) for d in range(D)]) for i in range(N)]
        y = _run(prog, _inputs(pts, 1)).ravel()
        M = len(y)
        if out is None:
            out = numpy.zeros((D, P, M, N))
        for m in range(M):
            for j in range(N):
                g = TP.lift(y[m].g[j], D)
                for d in range(D):
                    out[d, p, m, j] = float(g.c[d])
    return out
