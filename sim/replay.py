#!/venv/bin/python
"""Re-execute a replay file in a fresh process.  Exit 1 (and print the
VIOLATION line) iff the recorded (property, oracle, call kind) fails again."""
import json
import os
import sys

sys.path.insert(0, os.path.dirname(os.path.dirname(os.path.abspath(__file__))))
from sim import env  # noqa: E402


def main():
    path = sys.argv[1]
    env.bootstrap()
    try:
        env.import_algopy()
        from sim import minimise, runner
        with open(path) as f:
            rp = json.load(f)
        run = rp['run']
        prop = rp['property']
        res = runner.simulate(run, [prop])
        if res['invalid']:
            print('HARNESS-ERROR: replay plan invalid: %s' % res['invalid'])
            return 2
        exp = rp.get('expected')
        hits = res['verdicts']
        if exp is not None:
            sig = minimise.signature(exp, run)
            hits = [v for v in hits if minimise.signature(v, run) == sig]
        if '-v' in sys.argv:
            for ev in res['slog']['events']:
                print(json.dumps({k: v for k, v in ev.items() if k in ('seq', 'op', 'c', 'out', 'fired', 'lens', 'ptr', 'inv')})[:400])
        print('digest %s' % res['digest'])
        if hits:
            v = hits[0]
            print('VIOLATION property=%s replay=%s oracle=%s step=%d op=%s :: %s' % (
                prop, path, v['oracle'], v['seq'], v['op'],
                (v.get('detail') or ('got %s want %s' % (v.get('got'), v.get('want'))))[:600]))
            return 1
        print('not reproduced: %d other verdicts' % len(res['verdicts']))
        return 0
    except env.HarnessError as e:
        print('HARNESS-ERROR: %s' % e)
        return 2


if __name__ == '__main__':
    sys.exit(main())
