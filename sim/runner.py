"""One simulated run = fork child S (history) + fork child R (references) from
a parent that has imported algopy but never executed an algopy operation."""
import faulthandler
import os
import pickle
import resource
import signal
import sys
import traceback

from . import codec, engine, env, plan as planmod, refs

RUN_TIMEOUT = int(os.environ.get('VERIF_RUN_TIMEOUT', '150'))
MEM_LIMIT = int(os.environ.get('VERIF_MEM_LIMIT_MB', '6000')) << 20


def fork_call(fn, timeout=RUN_TIMEOUT):
    """Run fn() in a forked child; return its (picklable) result.  A child
    that dies, hangs or raises is a harness error, never a verdict."""
    r, w = os.pipe()
    pid = os.fork()
    if pid == 0:
        code = 0
        try:
            os.close(r)
            signal.signal(signal.SIGALRM, signal.SIG_DFL)
            signal.alarm(timeout)
            try:
                resource.setrlimit(resource.RLIMIT_AS, (MEM_LIMIT, MEM_LIMIT))
            except (ValueError, OSError):
                pass
            faulthandler.enable()
            try:
                payload = ('ok', fn())
            except BaseException:
                payload = ('err', traceback.format_exc())
            data = pickle.dumps(payload, protocol=pickle.HIGHEST_PROTOCOL)
            with os.fdopen(w, 'wb') as f:
                f.write(data)
        except BaseException:
            code = 3
        finally:
            os._exit(code)
    os.close(w)
    chunks = []
    with os.fdopen(r, 'rb') as f:
        while True:
            b = f.read(1 << 16)
            if not b:
                break
            chunks.append(b)
    _, status = os.waitpid(pid, 0)
    data = b''.join(chunks)
    if status != 0 or not data:
        why = ' (SIGALRM: no result within %d s - a call that never returns?)' % timeout if status == signal.SIGALRM else ''
        raise env.HarnessError('child exited with status %r and %d bytes of output%s' % (status, len(data), why))
    kind, val = pickle.loads(data)
    if kind == 'err':
        raise env.HarnessError('child raised:\n' + val)
    return val


def simulate(run, props):
    """Execute one concrete run description.  Returns a result dict."""
    env.import_algopy()
    slog = fork_call(lambda: engine.run_S(run))
    if 'invalid' in slog:
        return {'invalid': slog['invalid'], 'verdicts': [], 'stats': {}, 'digest': None, 'slog': slog}
    rres = fork_call(lambda: refs.run_R(run, slog, props))
    dig = codec.digest({'plan': run['plan'], 'events': slog['events'], 'verdicts': rres['verdicts'],
                        'rec_failed': slog.get('rec_failed')})
    return {'invalid': None, 'verdicts': rres['verdicts'], 'stats': rres['stats'], 'notes': rres['notes'],
            'digest': dig, 'slog': slog}


def simulate_seed(focus, seed, props=None):
    run = planmod.make_run(focus, seed)
    res = simulate(run, props or [focus])
    res['run'] = run
    return res
