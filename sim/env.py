"""Process bootstrap: pin every process-level source of nondeterminism and make
sure algopy is imported from the working tree under test (VERIF_REPO, default
/repo), never from site-packages."""
import os
import sys

REPO = os.path.realpath(os.environ.get('VERIF_REPO', '/repo'))
VERIF = os.path.dirname(os.path.dirname(os.path.realpath(__file__)))

_PINNED = {
    'OPENBLAS_NUM_THREADS': '1',
    'OMP_NUM_THREADS': '1',
    'MKL_NUM_THREADS': '1',
    'PYTHONDONTWRITEBYTECODE': '1',
}


class HarnessError(Exception):
    """Anything that is the simulator's fault, never a property violation."""


def bootstrap():
    """Re-exec the interpreter once with a fixed hash seed and single-threaded
    BLAS.  VERIF_HASHSEED overrides the hash seed (used by the determinism
    self-test to show that nothing depends on it)."""
    want = dict(_PINNED)
    want['PYTHONHASHSEED'] = os.environ.get('VERIF_HASHSEED', '0')
    if all(os.environ.get(k) == v for k, v in want.items()):
        return
    if os.environ.get('VERIF_REEXEC') == '1':
        raise HarnessError('re-exec did not pin the environment')
    env = dict(os.environ)
    env.update(want)
    env['VERIF_REEXEC'] = '1'
    os.execve(sys.executable, [sys.executable] + sys.argv, env)


_algopy = None


def import_algopy():
    """Import algopy from REPO and verify where it came from."""
    global _algopy
    if _algopy is not None:
        return _algopy
    import warnings
    warnings.simplefilter('ignore')
    if sys.path[0] != REPO:
        sys.path.insert(0, REPO)
    import algopy
    here = os.path.realpath(algopy.__file__)
    if not here.startswith(REPO + os.sep):
        raise HarnessError('algopy imported from %s, not from %s' % (here, REPO))
    _algopy = algopy
    return algopy


# --------------------------------------------------------------------------
# CPU-time watchdog for a single call into the library
# --------------------------------------------------------------------------

CALL_CPU_LIMIT = float(os.environ.get('VERIF_CALL_CPU_LIMIT', '10'))


class CallTimeout(BaseException):
    """A single library call used more than CALL_CPU_LIMIT seconds of CPU time
    (ordinary calls take milliseconds): it is treated as a call that does not
    return.  CPU time, not wall time, so machine load cannot trigger it."""


class cpu_limit(object):
    def __init__(self, seconds=None):
        self.seconds = seconds or CALL_CPU_LIMIT

    def _handler(self, signum, frame):
        raise CallTimeout('call exceeded %.0f s of CPU time' % self.seconds)

    def __enter__(self):
        import signal
        self.old = signal.signal(signal.SIGVTALRM, self._handler)
        signal.setitimer(signal.ITIMER_VIRTUAL, self.seconds)
        return self

    def __exit__(self, *exc):
        import signal
        signal.setitimer(signal.ITIMER_VIRTUAL, 0)
        signal.signal(signal.SIGVTALRM, self.old)
        return False
