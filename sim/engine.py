"""Child S: executes one concrete plan against the real algopy and returns the
event log.  Nothing here draws random numbers except the dense reverse seeds,
which are a pure function of (subseed, shape)."""
import contextlib
import os
import random
import signal
import sys

import numpy

from . import codec, env, programs
from .codec import enc


class SimFault(Exception):
    pass


class SimInterrupt(BaseException):
    pass


class PlanInvalid(Exception):
    """A step's precondition does not hold (only possible for plans edited by
    the minimiser)."""


# --------------------------------------------------------------------------
# fault seam (DESIGN S9): wrap the two dispatch classmethods from outside
# --------------------------------------------------------------------------

class FaultState(object):
    def __init__(self):
        self.armed = None
        self.count = 0
        self.fired = False
        self.installed = False

    def arm(self, kind, k, exc):
        self.armed = kind
        self.k = k
        self.exc = SimFault if exc == 'exc' else SimInterrupt
        self.count = 0
        self.fired = False

    def disarm(self):
        self.armed = None

    def hit(self, kind):
        if self.armed != kind:
            return
        n = self.count
        self.count += 1
        if n == self.k and not self.fired:
            self.fired = True
            raise self.exc('injected %s at node %d' % (kind, n))


FAULTS = FaultState()


def install_fault_seam(algopy):
    if FAULTS.installed:
        return
    F = algopy.Function
    orig_pf = F.__dict__['pushforward'].__func__
    orig_pb = F.__dict__['pullback'].__func__

    def pushforward(cls, *a, **k):
        # fully transparent: arguments are passed on exactly as received
        fout = k.get('Fout', a[3] if len(a) > 3 else None)
        if fout is not None:
            FAULTS.hit('node_fwd')
        return orig_pf(cls, *a, **k)

    def pullback(cls, F_):
        FAULTS.hit('node_rev')
        return orig_pb(cls, F_)

    F.pushforward = classmethod(pushforward)
    F.pullback = classmethod(pullback)
    FAULTS.installed = True


class LineFault(object):
    """sys.settrace based interrupt at the n-th executed line inside the
    repository's algopy package."""

    def __init__(self, root):
        self.root = root
        self.count = 0
        self.n = None
        self.fired = False
        self.exc = SimFault
        self.depth = 0
        self.locs = None

    def _global(self, frame, event, arg):
        code = frame.f_code
        if not code.co_filename.startswith(self.root):
            return None
        # Interrupts land while a node's forward or reverse kernel is in progress, i.e. while a
        # Function.pushforward / Function.pullback / Function.xbar_from_x frame is on the stack --
        # not in the bodies of CGraph's own methods and what they call directly: that is where a
        # sweep's clean-up code lives, and no property (and no Python code) can promise
        # consistency when an asynchronous exception arrives in the middle of a finally block.
        qn = getattr(code, 'co_qualname', code.co_name)
        if qn.startswith('Function.'):
            self.depth += 1
            return self._local_node
        if self.depth > 0:
            return self._local
        return None

    def _line(self, frame):
        self.count += 1
        if self.locs is not None:
            self.locs.append((frame.f_code.co_filename, frame.f_lineno))
        if self.n is not None and self.count == self.n:
            self.fired = True
            raise self.exc('injected interrupt at line event %d (%s:%d)' % (
                self.count, os.path.basename(frame.f_code.co_filename), frame.f_lineno))

    def _local(self, frame, event, arg):
        if event == 'line':
            self._line(frame)
        return self._local

    def _local_node(self, frame, event, arg):
        if event == 'line':
            try:
                self._line(frame)
            except BaseException:
                self.depth -= 1
                raise
        elif event == 'return':
            self.depth -= 1
        return self._local_node

    def start(self, n, exc):
        self.count = 0
        self.depth = 0
        self.n = n
        self.fired = False
        self.exc = SimFault if exc == 'exc' else SimInterrupt
        sys.settrace(self._global)

    def stop(self):
        sys.settrace(None)


# --------------------------------------------------------------------------
# values
# --------------------------------------------------------------------------

def make_value(algopy, kind, val, dtype=None):
    a = numpy.array(val, dtype=int if dtype == 'int' else float)
    if kind == 'nd':
        return a
    return algopy.UTPM(a)


def dense_seed(subseed, shape):
    rng = random.Random(subseed)
    n = 1
    for s in shape:
        n *= s
    vals = [rng.randint(-16, 16) / 8.0 or 0.375 for _ in range(n)]
    return numpy.array(vals, dtype=float).reshape(shape)


def unwrap(v, Function):
    if isinstance(v, Function):
        return v.x
    if isinstance(v, (list, tuple)):
        return [unwrap(e, Function) for e in v]
    return v


def structure(cg, Function):
    """Canonical structure of a graph: per node the callable's name, the
    positions of its Function arguments (by identity) and its constants."""
    pos = {}
    for i, f in enumerate(cg.functionList):
        pos[id(f)] = i
    out = []
    for f in cg.functionList:
        args = []
        for a in f.args:
            if isinstance(a, Function):
                args.append(['f', pos.get(id(a), -1)])
            else:
                args.append(['c', canon_const(a)])
        kw = sorted((k, canon_const(v)) for k, v in f.kwargs.items())
        out.append([getattr(f.func, '__name__', repr(f.func)), args, kw])
    return out


def canon_const(a):
    if isinstance(a, numpy.ndarray):
        return enc(a)
    if isinstance(a, slice):
        return ['slice', a.start, a.stop, a.step]
    if isinstance(a, tuple):
        return ['tuple'] + [canon_const(x) for x in a]
    if isinstance(a, (numpy.generic,)):
        return ['np', repr(a.item())]
    return repr(a)


def check_graph_order(cg, Function, allowed=()):
    """I1: every Function argument of the node at position i is an element of
    the same graph at a position < i (or the node itself)."""
    pos = {}
    bad = []
    for i, f in enumerate(cg.functionList):
        if id(f) in pos:
            bad.append('node object appears twice: positions %d and %d' % (pos[id(f)], i))
            if len(bad) >= 3:
                return bad
        pos[id(f)] = i
    for i, f in enumerate(cg.functionList):
        for a in f.args:
            if isinstance(a, Function):
                p = pos.get(id(a))
                if p is None and id(a) in allowed:
                    continue      # a value computed while recording was off: a captured constant
                if p is None:
                    bad.append('node %d has an argument that is not in this graph' % i)
                elif p > i:
                    bad.append('node %d has an argument recorded after it (%d)' % (i, p))
                if len(bad) >= 3:
                    return bad
    return bad


# --------------------------------------------------------------------------
# clients
# --------------------------------------------------------------------------

class Client(object):
    def __init__(self, idx, cfg):
        self.idx = idx
        self.cfg = cfg
        self.prog = cfg['program']
        self.cg = None
        self.regs = None
        self.ip = 0
        self.sealed = False
        self.slots = {}
        self.last_out = None      # the objects the last completed forward evaluation returned
        self.last_ybars = None    # the seed objects of the last bare reverse sweep
        self.frozen_ids = set()   # ids of Function objects created while recording was off
        self.frozen_keep = []     # (keeps them alive so that the ids stay unique)


class Sim(object):
    def __init__(self, run):
        self.al = env.import_algopy()
        self.F = self.al.Function
        self.run = run
        self.B = programs.AlgopyBackend(self.al, traced=True)
        self.clients = [Client(i, c) for i, c in enumerate(run['clients'])]
        self.events = []
        self.retained = []        # results handed out by completed calls: (seq, client, arrays, bytes)
        self.views = {}           # id(caller-owned object) -> (object, values as the caller last wrote them)
        self.line = LineFault(os.path.join(env.REPO, 'algopy') + os.sep)
        if any(s.get('fault') and s['fault']['kind'].startswith('node') for s in run['plan']):
            install_fault_seam(self.al)

    # ---- helpers -----------------------------------------------------------
    def lens(self):
        return [len(c.cg.functionList) if c.cg is not None else None for c in self.clients]

    def ptr(self):
        g = self.F.cgraph
        if g is None:
            return None
        for c in self.clients:
            if c.cg is g:
                return c.idx
        return -1

    def invariants(self, before, step):
        bad = []
        after = self.lens()
        op = step['op']
        c = step['c']
        for i, (b, a) in enumerate(zip(before, after)):
            if i == c and op in ('new_graph', 'rec', 'reset'):
                continue
            if b != a:
                what = 'I3' if op == 'rec_off' else 'I2'
                bad.append('%s: step %s of client %d changed the length of graph %d from %s to %s' % (
                    what, op, c, i, b, a))
        for cl in self.clients:
            if cl.cg is not None:
                for msg in check_graph_order(cl.cg, self.F, cl.frozen_ids):
                    bad.append('I1: graph %d: %s' % (cl.idx, msg))
        return bad

    # ---- results that were handed out stay as they were (O6.stable) ---------------
    def _arrays(self, raw):
        out = []
        stack = [raw]
        while stack:
            r = stack.pop()
            if isinstance(r, (list, tuple)):
                stack.extend(r)
            elif isinstance(r, numpy.ndarray):
                out.append(r)
            elif isinstance(getattr(r, 'data', None), numpy.ndarray) and type(r).__name__ in ('UTPM', 'UTP'):
                out.append(r.data)
        return out

    def retain(self, seq, cidx, raw, op=None):
        arrs = self._arrays(raw)
        if not arrs:
            return
        self.retained.append([seq, cidx, arrs, [a.tobytes() for a in arrs], op])
        mine = [r for r in self.retained if r[1] == cidx]
        if len(mine) > 4:
            self.retained.remove(mine[0])

    def caller_writes(self, obj):
        """The caller itself is about to overwrite `obj` in place: whatever shares memory with
        it is no longer expected to stay the same."""
        target = obj.data if not isinstance(obj, numpy.ndarray) else obj
        self.retained = [r for r in self.retained
                         if not any(numpy.shares_memory(a, target) for a in r[2])]

    def check_retained(self, ev):
        keep = []
        for r in self.retained:
            if all(a.tobytes() == b for a, b in zip(r[2], r[3])):
                keep.append(r)
            else:
                ev.setdefault('unstable', []).append({'result_of_seq': r[0], 'client': r[1], 'op': r[4]})
        self.retained = keep

    def reset_client(self, c):
        """The caller drops a graph and everything that refers to it (and will record the same
        program again): the old graph is garbage, its address may be reused."""
        import gc
        self.retained = [r for r in self.retained if r[1] != c.idx]
        c.cg = None
        c.regs = None
        c.ip = 0
        c.sealed = False
        c.slots = {}
        c.last_out = None
        c.last_ybars = None
        c.frozen_ids = set()
        c.frozen_keep = []
        gc.collect()

    # ---- steps -------------------------------------------------------------
    def step_new_graph(self, c, step, ev):
        c.cg = self.al.CGraph()

    def step_rec(self, c, step, ev):
        if c.cg is None:
            raise PlanInvalid('rec before new_graph')
        if step['begin'] == 'trace_on':
            c.cg.trace_on()
        F = self.F
        vals = []
        inv = []
        if step.get('wrap'):
            if c.regs is not None:
                raise PlanInvalid('inputs wrapped twice')
            rec = c.cfg['rec']
            n_in = len(rec['vals'])
            npre = c.prog.get('npre', 0)
            c.regs = [None] * n_in
            # the program's prelude runs before the inputs are wrapped (its nodes are recorded in
            # front of the independent variables)
            for j in range(npre):
                ins = c.prog['instrs'][j]
                r = programs.exec_instr(ins, c.regs, self.B)
                c.regs.append(r)
                vals.append({'i': j, 'v': enc(unwrap(r, F))})
            c.ip = npre
            for j, v in enumerate(rec['vals']):
                n0 = len(c.cg.functionList)
                f = F(make_value(self.al, rec['kind'], v, rec.get('dtype')))
                c.regs[j] = f
                if not any(g is f for g in c.cg.functionList[n0:]):
                    inv.append('I4: wrapped input was not recorded in its graph')
        if c.regs is None:
            raise PlanInvalid('rec without wrapped inputs')
        n_ins = len(c.prog['instrs'])
        k = max(0, min(step['k'] - (c.prog.get('npre', 0) if step.get('wrap') else 0), n_ins - c.ip))
        for _ in range(k):
            ins = c.prog['instrs'][c.ip]
            n0 = len(c.cg.functionList)
            if ins.get('off'):
                # recording switched off around this one instruction
                c.cg.trace_off()
                try:
                    r = programs.exec_instr(ins, c.regs, self.B)
                finally:
                    c.cg.trace_on()
                c.regs.append(r)
                if isinstance(r, F):
                    c.frozen_ids.add(id(r))
                    c.frozen_keep.append(r)
                if len(c.cg.functionList) != n0:
                    inv.append('I3: instruction %d (%s) executed with recording off was recorded' % (c.ip, ins['op']))
                vals.append({'i': c.ip, 'v': enc(unwrap(r, F))})
                c.ip += 1
                continue
            r = programs.exec_instr(ins, c.regs, self.B)
            c.regs.append(r)
            n1 = len(c.cg.functionList)
            new = c.cg.functionList[n0:]
            results = r if isinstance(r, list) else [r]
            if ins['op'] == 'pick':
                results = []      # selects a node that `unpack` already recorded
            for q in results:
                if isinstance(q, F):
                    hits = sum(1 for g in new if g is q)
                    if hits != 1:
                        inv.append('I4: result of instruction %d (%s) is recorded %d times in its graph' % (
                            c.ip, ins['op'], hits))
            if ins['op'] not in ('try', 'unpack', 'pick') and n1 <= n0:
                inv.append('I4: instruction %d (%s) executed with recording on left no node' % (c.ip, ins['op']))
            item = {'i': c.ip, 'v': enc(unwrap(r, F))}
            if ins['op'] == 'setitem':
                item['buf'] = enc(unwrap(c.regs[ins['a'][0]], F))
            vals.append(item)
            c.ip += 1
        if step['end'] == 'trace_off':
            c.cg.trace_off()
        ev['rec_vals'] = vals
        ev['inv'].extend(inv)

    def step_rec_off(self, c, step, ev):
        if c.regs is None:
            raise PlanInvalid('rec_off without traced registers')
        for ins in step['instrs']:
            for o in ins['a']:
                if isinstance(o, int) and (o >= len(c.regs) or c.regs[o] is None
                                           or isinstance(c.regs[o], list)):
                    raise PlanInvalid('scratch operand undefined')
            try:
                programs.exec_instr(ins, c.regs, self.B)
            except Exception as e:
                ev['scratch_exc'] = type(e).__name__

    def step_seal(self, c, step, ev):
        if c.regs is None or c.ip < len(c.prog['instrs']):
            raise PlanInvalid('seal before the program was recorded')
        if step['trace_off'] == 'before':
            c.cg.trace_off()
        n = len(c.prog['n_in'])
        c.cg.independentFunctionList = [c.regs[i] for i in range(n)]
        c.cg.dependentFunctionList = [c.regs[i] for i in c.prog['outputs']]
        if step['trace_off'] == 'after':
            c.cg.trace_off()
        c.sealed = True
        ev['structure'] = structure(c.cg, self.F)
        ev['ids'] = [getattr(f, 'ID', None) for f in c.cg.functionList]
        ev['count'] = c.cg.functionCount

    def caller_view(self, obj):
        """The values the caller put into `obj` (at creation or at its last in-place overwrite).
        If the library has modified the object since, that is not the caller's doing: the call's
        argument, as far as the caller can know, still has these values."""
        v = self.views.get(id(obj))
        if v is not None and v[0] is obj:
            return v[1]
        return enc(obj)

    def caller_wrote(self, obj):
        self.views[id(obj)] = (obj, enc(obj))

    def build_inputs(self, c, step):
        xs = []
        for spec in step['inputs']:
            sid = spec['slot']
            obj = c.slots.get(sid)
            mode = spec['mode']
            if (mode == 'feedback' and c.last_out is not None and self._compatible(c.last_out[0], spec)
                    and self._contiguous(c.last_out[0])):
                # (only C-contiguous objects: NumPy's vectorised loops and its strided loops may
                # round differently in the last bit, so an equal-valued input with another memory
                # layout is not "the same argument" for a bit-exact comparison)
                obj = c.last_out[0]
            elif mode == 'same' and obj is not None:
                pass
            elif mode == 'overwrite' and obj is not None and self._compatible(obj, spec):
                a = numpy.array(spec['val'], dtype=float)
                self.caller_writes(obj)
                if spec['kind'] == 'nd':
                    obj[...] = a
                else:
                    obj.data[...] = a
                self.caller_wrote(obj)
            else:
                obj = make_value(self.al, spec['kind'], spec['val'], spec.get('dtype'))
                self.caller_wrote(obj)
            c.slots[sid] = obj
            xs.append(obj)
        return xs

    def _contiguous(self, obj):
        a = obj if isinstance(obj, numpy.ndarray) else obj.data
        return bool(a.flags['C_CONTIGUOUS'])

    def _compatible(self, obj, spec):
        a = numpy.shape(spec['val'])
        if spec['kind'] == 'nd':
            # (same dtype, too: writing float values into an integer array the caller used before
            # would cast them, out of range even with undefined results)
            want = numpy.dtype(int) if spec.get('dtype') == 'int' else numpy.dtype(float)
            return isinstance(obj, numpy.ndarray) and obj.shape == a and obj.dtype == want
        return isinstance(obj, self.al.UTPM) and obj.data.shape == a

    def call_fwd(self, c, step):
        xs = self.build_inputs(c, step)
        args = [self.caller_view(x) for x in xs]

        def thunk():
            c.last_out = None
            if step['api'] == 'function':
                out = c.cg.function(xs)
            else:
                c.cg.pushforward(xs)
                out = [f.x for f in c.cg.dependentFunctionList]
            c.last_out = list(out)
            return enc(out), out
        return args, thunk, xs

    def make_seeds(self, c, subseed, bad=False):
        ybars = []
        for f in c.cg.dependentFunctionList:
            x = f.x
            if isinstance(x, self.al.UTPM):
                shp = x.data.shape
                if bad:
                    shp = shp + (2,)
                ybars.append(self.al.UTPM(dense_seed(subseed + len(ybars), shp)))
            else:
                ybars.append(dense_seed(subseed + len(ybars), numpy.shape(x)))
        return ybars

    def enumerate_interrupts(self, c, step, ybars2, ev):
        """Fault *enumeration* for one reverse sweep: for every distinct source line a sweep with
        the seeds `enum.subseed` visits while a node kernel is in progress, a forked copy of this
        process runs that sweep with an interrupt at the line's first visit and then the sweep
        of this step; what the second sweep returns is collected.  The un-faulted history goes
        on in this process."""
        spec = step['enum']
        if step['op'] == 'rev':
            ybars1 = self.make_seeds(c, spec['subseed'])

            def sweep1():
                c.cg.pullback(ybars1)

            def sweep2():
                c.cg.pullback(ybars2)
                return enc([f.xbar for f in c.cg.independentFunctionList])
        else:
            # forward evaluation at other inputs, interrupted; then this step's own evaluation
            xs1 = [make_value(self.al, i['kind'], i['val']) for i in spec['inputs']]
            real = ybars2          # for 'fwd' the third argument is the step's own thunk

            def sweep1():
                c.cg.pushforward(xs1)

            def sweep2():
                return real()[0]
        locs = self.dry_run_locations(sweep1)
        cap = spec.get('cap', 400)
        if len(locs) > cap:
            stride = len(locs) / float(cap)
            locs = [locs[int(i * stride)] for i in range(cap)]
        outcomes = {}
        for k, (n_event, name) in enumerate(locs):
            r, w = os.pipe()
            pid = os.fork()
            if pid == 0:
                code = 0
                try:
                    os.close(r)
                    signal.signal(signal.SIGALRM, signal.SIG_DFL)
                    signal.alarm(60)
                    self.line.start(n_event, 'exc' if k % 2 == 0 else 'base')
                    try:
                        with env.cpu_limit():
                            sweep1()
                    except BaseException:
                        pass
                    finally:
                        self.line.stop()
                    try:
                        with env.cpu_limit():
                            res = ['ok', sweep2()]
                    except BaseException as e:
                        res = ['exc', type(e).__name__]
                    import pickle
                    with os.fdopen(w, 'wb') as f:
                        pickle.dump([self.line.fired, res], f)
                except BaseException:
                    code = 3
                finally:
                    os._exit(code)
            os.close(w)
            with os.fdopen(r, 'rb') as f:
                data = f.read()
            os.waitpid(pid, 0)
            if not data:
                continue
            import pickle
            fired, res = pickle.loads(data)
            if not fired:
                continue
            key = codec.digest(res)
            if key not in outcomes:
                outcomes[key] = {'out': res, 'first_at': name, 'count': 0}
            outcomes[key]['count'] += 1
        ev['enum'] = {'lines': len(locs), 'outcomes': sorted(outcomes.values(), key=lambda o: o['first_at'])}

    def dry_run_locations(self, thunk):
        """Distinct (file, line) locations of the call's line events with the index of their
        first visit, found in a forked copy of this process."""
        r, w = os.pipe()
        pid = os.fork()
        if pid == 0:
            code = 0
            try:
                os.close(r)
                signal.signal(signal.SIGALRM, signal.SIG_DFL)
                signal.alarm(40)
                self.line.locs = []
                self.line.start(None, 'exc')
                try:
                    with env.cpu_limit():
                        thunk()
                except BaseException:
                    pass
                self.line.stop()
                first = {}
                for i, loc in enumerate(self.line.locs):
                    if loc not in first:
                        first[loc] = i + 1
                import pickle
                out = sorted((n, '%s:%d' % (os.path.basename(f), l)) for (f, l), n in first.items())
                with os.fdopen(w, 'wb') as f:
                    pickle.dump(out, f)
            except BaseException:
                code = 1
            finally:
                os._exit(code)
        os.close(w)
        with os.fdopen(r, 'rb') as f:
            data = f.read()
        os.waitpid(pid, 0)
        if not data:
            return []
        import pickle
        return pickle.loads(data)

    def call_rev(self, c, step):
        ybars = self.make_seeds(c, step['subseed'], step.get('bad'))
        old = c.last_ybars
        same_shape = old is not None and len(old) == len(ybars) and all(
            type(o) is type(n) and numpy.shape(getattr(o, 'data', o)) == numpy.shape(getattr(n, 'data', n))
            for o, n in zip(old, ybars))
        if step.get('same_seed') and same_shape:
            # the very same seed objects again, untouched by the caller
            ybars = old
            args = [self.caller_view(y) for y in ybars]

            def thunk():
                c.cg.pullback(ybars)
                out = [f.xbar for f in c.cg.independentFunctionList]
                return enc(out), out
            return args, thunk, ybars
        if step.get('reuse_seed') and old is not None and len(old) == len(ybars) and all(
                type(o) is type(n) and numpy.shape(getattr(o, 'data', o)) == numpy.shape(getattr(n, 'data', n))
                for o, n in zip(old, ybars)):
            # the documented idiom: the same seed object, overwritten in place between sweeps
            for o, n in zip(old, ybars):
                if isinstance(o, self.al.UTPM):
                    o.data[...] = n.data
                else:
                    o[...] = n
            ybars = old
        c.last_ybars = ybars
        for y in ybars:
            self.caller_wrote(y)
        args = [enc(y) for y in ybars]

        def thunk():
            c.cg.pullback(ybars)
            out = [f.xbar for f in c.cg.independentFunctionList]
            return enc(out), out
        return args, thunk, ybars

    def call_drv(self, c, step):
        return None, driver_thunk(self.al, c.cg, step), []

    def step_call(self, c, step, ev):
        if not c.sealed:
            raise PlanInvalid('call on an unsealed graph')
        op = step['op']
        if op == 'fwd':
            args, thunk, owned = self.call_fwd(c, step)
        elif op == 'rev':
            args, thunk, owned = self.call_rev(c, step)
        else:
            args, thunk, owned = self.call_drv(c, step)
        ev['args'] = args
        if op == 'rev' and step.get('enum'):
            self.enumerate_interrupts(c, step, owned, ev)
        elif op == 'fwd' and step.get('enum'):
            self.enumerate_interrupts(c, step, thunk, ev)
        before_owned = [enc(o) for o in owned]
        fault = step.get('fault')
        fired = False
        line_n = None
        if fault is not None:
            n_nodes = len(c.cg.functionList)
            if fault['kind'] in ('node_fwd', 'node_rev'):
                FAULTS.arm(fault['kind'], int(fault['frac'] * n_nodes), fault['exc'])
            else:
                total, line_n = self.dry_run_lines(thunk, fault)
                ev['line_total'] = total
                ev['line_n'] = line_n
        # (no context manager at all when the step does not ask for one: numpy.errstate() would
        # restore the error state at exit and so hide a kernel that leaks a changed state)
        err = numpy.errstate(all='raise') if step.get('errstate') else contextlib.nullcontext()
        try:
            with err:
                if line_n is not None:
                    self.line.start(line_n, fault['exc'])
                try:
                    with env.cpu_limit():
                        out, raw = thunk()
                finally:
                    if line_n is not None:
                        self.line.stop()
            ev['out'] = ['ok', out]
            self.retain(step['seq'], c.idx, raw, op)
        except BaseException as e:  # noqa: injected interrupts are BaseException
            if isinstance(e, (SystemExit, GeneratorExit)):
                raise
            ev['out'] = ['exc', type(e).__name__]
            if isinstance(e, env.CallTimeout):
                ev['timeout'] = True
        finally:
            if fault is not None:
                fired = FAULTS.fired if fault['kind'].startswith('node') else self.line.fired
                FAULTS.disarm()
        ev['fired'] = bool(fired)
        after_owned = [enc(o) for o in owned]
        if before_owned != after_owned:
            ev['caller_owned_mutation'] = True
        if op in ('fwd', 'drv') and ev['out'][0] == 'ok':
            ev['fwd_args'] = [enc(f.x) for f in c.cg.independentFunctionList]

    def dry_run_lines(self, thunk, fault):
        """Run the call in a forked copy of this process (the call itself must not happen
        twice here), count its line events and choose the event at which to interrupt."""
        r, w = os.pipe()
        pid = os.fork()
        if pid == 0:
            code = 0
            try:
                os.close(r)
                # alarms are not inherited across fork: bound the dry run on its own
                signal.signal(signal.SIGALRM, signal.SIG_DFL)
                signal.alarm(40)
                by_loc = fault.get('by') == 'loc'
                self.line.locs = [] if by_loc else None
                self.line.start(None, 'exc')
                try:
                    with env.cpu_limit():
                        thunk()
                except BaseException:
                    pass
                self.line.stop()
                total = self.line.count
                n = 0
                if total > 0:
                    if by_loc:
                        visits = {}
                        for i, loc in enumerate(self.line.locs):
                            visits.setdefault(loc, []).append(i + 1)
                        keys = sorted(visits)
                        occ = visits[keys[int(fault['frac'] * len(keys))]]
                        n = occ[int(fault.get('frac2', 0.0) * len(occ))]
                    else:
                        n = 1 + int(fault['frac'] * total)
                os.write(w, ('%d %d' % (total, n)).encode())
            except BaseException:
                code = 1
            finally:
                os._exit(code)
        os.close(w)
        data = b''
        while True:
            chunk = os.read(r, 64)
            if not chunk:
                break
            data += chunk
        os.close(r)
        os.waitpid(pid, 0)
        if not data:
            return 0, None
        total, n = [int(t) for t in data.split()]
        return total, (n or None)

    # ---- main loop -----------------------------------------------------------
    def execute(self):
        for step in self.run['plan']:
            c = self.clients[step['c']]
            ev = {'seq': step['seq'], 'op': step['op'], 'c': step['c'], 'inv': []}
            before = self.lens()
            op = step['op']
            try:
                if op == 'new_graph':
                    self.step_new_graph(c, step, ev)
                elif op == 'rec':
                    try:
                        with env.cpu_limit():
                            self.step_rec(c, step, ev)
                    except env.CallTimeout:
                        raise Exception('recording did not return (CPU-time watchdog)')
                elif op == 'rec_off':
                    self.step_rec_off(c, step, ev)
                elif op == 'seal':
                    self.step_seal(c, step, ev)
                elif op == 'toff':
                    if c.cg is None:
                        raise PlanInvalid('toff before new_graph')
                    c.cg.trace_off()
                elif op == 'reset':
                    self.reset_client(c)
                elif op in ('fwd', 'rev', 'drv'):
                    self.step_call(c, step, ev)
                else:
                    raise PlanInvalid('unknown op %r' % op)
            except PlanInvalid as e:
                return {'invalid': str(e), 'events': self.events}
            except Exception as e:
                if op == 'rec':
                    # the recording itself raised: reported, judged by R (O5.1)
                    ev['rec_exc'] = type(e).__name__ + ': ' + str(e)[:300]
                    self.events.append(ev)
                    return {'events': self.events, 'rec_failed': step['seq']}
                raise
            ev['lens'] = self.lens()
            ev['ptr'] = self.ptr()
            ev['inv'].extend(self.invariants(before, step))
            self.check_retained(ev)
            self.events.append(ev)
            if ev.get('timeout'):
                # a call that does not return: nothing sensible can follow
                return {'events': self.events, 'aborted': step['seq']}
        return {'events': self.events}


def driver_thunk(algopy, cg, step):
    name = step['name']
    if name == 'gradient_list':
        xs = [numpy.array(v, dtype=float) for v in step['x']]

        def thunk_list():
            out = cg.gradient(xs)
            return enc(out), out
        return thunk_list
    x = numpy.array(step['x'], dtype=float)
    v = numpy.array(step['v'], dtype=float) if step.get('v') is not None else None
    w = numpy.array(step['w'], dtype=float) if step.get('w') is not None else None

    def thunk():
        if name == 'gradient':
            out = cg.gradient(list(x) if step.get('xlist') else x)
        elif name == 'jacobian':
            out = cg.jacobian(x)
        elif name == 'jacobian_utpm':
            out = cg.jacobian(algopy.UTPM(x))
        elif name == 'jac_vec':
            out = cg.jac_vec(x, v)
        elif name == 'vec_jac':
            out = cg.vec_jac(w, x)
        elif name == 'hessian':
            out = cg.hessian(x)
        elif name == 'hess_vec':
            out = cg.hess_vec(x, v)
        elif name == 'vec_hess':
            out = cg.vec_hess(w, x)
        elif name == 'vec_hess_vec':
            out = cg.vec_hess_vec(w, x, v)
        else:
            raise ValueError(name)
        return enc(out), out
    return thunk


def run_S(run):
    sim = Sim(run)
    return sim.execute()
