"""Child R: a pristine process that never ran a history.  Recomputes the
expected outcome of every checkable logged call from that call's arguments
alone and returns verdicts."""
import contextlib
import os
import pickle

import numpy

from . import codec, env, exact, programs
from .codec import enc, dec
from .engine import driver_thunk, make_value, structure, unwrap

ADMISSIBLE_MAX = 1.0e6
TRUTH_RTOL = 1.0e-8


class Refs(object):
    def __init__(self, run, slog, props):
        self.al = env.import_algopy()
        self.F = self.al.Function
        self.B = programs.AlgopyBackend(self.al)
        self.BT = programs.AlgopyBackend(self.al, traced=True)
        self.run = run
        self.slog = slog
        self.props = set(props)
        self.verdicts = []
        self.stats = {}
        self.notes = []
        self._rec_direct = {}
        self._frozen = {}
        self._abs_tol = 0.0
        self._model_err = 0.0
        self.timed_out = False
        self.tasks = []

    # ---- bookkeeping ---------------------------------------------------------
    def count(self, key, n=1):
        self.stats[key] = self.stats.get(key, 0) + n

    def verdict(self, prop, oracle, ev, ok, **detail):
        self.count('checked:%s:%s' % (prop, oracle))
        if ok:
            return
        d = {'property': prop, 'oracle': oracle, 'seq': ev['seq'], 'op': ev['op'], 'c': ev['c']}
        d.update(detail)
        self.verdicts.append(d)

    # ---- reference computations ------------------------------------------------
    def outcome(self, thunk, errstate=False):
        """Expected outcome of one call, computed in a process of its own: R forks a child per
        reference, so that every reference really is computed "in a process in which nothing
        else ever happened" -- state that leaks through the process (a class-level memo, a
        mutated default argument) cannot make reference k+1 wrong in the same way as the call
        it is compared with."""
        r, w = os.pipe()
        pid = os.fork()
        if pid == 0:
            code = 0
            try:
                os.close(r)
                res = self._outcome_here(thunk, errstate)
                with os.fdopen(w, 'wb') as f:
                    pickle.dump(res, f, protocol=pickle.HIGHEST_PROTOCOL)
            except BaseException:
                code = 3
            finally:
                os._exit(code)
        os.close(w)
        with os.fdopen(r, 'rb') as f:
            data = f.read()
        _, status = os.waitpid(pid, 0)
        if status != 0 or not data:
            raise env.HarnessError('reference child exited with status %r' % (status,))
        res = pickle.loads(data)
        if res == ['exc', 'CallTimeout']:
            self.timed_out = True
        return res

    def defer(self, thunk, errstate, cont):
        """Register a reference computation; `cont(want)` turns its outcome into verdicts.
        The computations run after the bookkeeping pass, see run_deferred."""
        self.tasks.append((thunk, errstate, cont))

    def run_deferred(self):
        """'fork': every reference in a pristine child of its own, in event order.
        'reverse': all references in this process, in *reverse* event order -- cheap, and it
        still decorrelates process-global state from the history under test: call k of the
        history was preceded by calls < k, reference k by references > k."""
        mode = self.run.get('config', {}).get('ref_isolation', 'fork')
        tasks = self.tasks if mode == 'fork' else self.tasks[::-1]
        for thunk, es, cont in tasks:
            if self.timed_out:
                self.count('aborted:reference_timeout')
                break
            if mode == 'fork':
                want = self.outcome(thunk, es)
            else:
                want = self._outcome_here(thunk, es)
                if want == ['exc', 'CallTimeout']:
                    self.timed_out = True
            cont(want)
        self.verdicts.sort(key=lambda v: (v['seq'], v['oracle']))

    def _outcome_here(self, thunk, errstate=False):
        err = numpy.errstate(all='raise') if errstate else contextlib.nullcontext()
        try:
            with err:
                with env.cpu_limit():
                    return ['ok', thunk()]
        except env.CallTimeout:
            return ['exc', 'CallTimeout']
        except Exception as e:
            return ['exc', type(e).__name__]

    def record(self, prog, inputs):
        """A brand-new graph with the program recorded in one go."""
        cg = self.al.CGraph()
        try:
            npre = prog.get('npre', 0)
            regs = [None] * len(inputs)
            for ins in prog['instrs'][:npre]:
                regs.append(programs.exec_instr(ins, regs, self.BT))      # prelude: before the inputs
            for j, x in enumerate(inputs):
                regs[j] = self.F(x)
            for ins in prog['instrs'][npre:]:
                if ins.get('off'):
                    cg.trace_off()
                    try:
                        regs.append(programs.exec_instr(ins, regs, self.BT))
                    finally:
                        cg.trace_on()
                else:
                    regs.append(programs.exec_instr(ins, regs, self.BT))
        finally:
            cg.trace_off()
        n = len(prog['n_in'])
        cg.independentFunctionList = [regs[i] for i in range(n)]
        cg.dependentFunctionList = [regs[i] for i in prog['outputs']]
        return cg

    def direct(self, prog, inputs, cidx=None):
        if prog.get('frozen') and cidx is not None:
            # values computed while recording was off are constants of the graph: they keep the
            # value the program gave them at the recording inputs
            regs = programs.run_program_frozen(prog, inputs, self.B, self.frozen_regs(cidx))
        else:
            regs = programs.run_program(prog, inputs, self.B)
        return programs.outputs_of(prog, regs)

    def frozen_regs(self, cidx):
        if cidx not in self._frozen:
            cfg = self.run['clients'][cidx]
            rec = cfg['rec']
            inputs = [make_value(self.al, rec['kind'], v, rec.get('dtype')) for v in rec['vals']]
            self._frozen[cidx] = programs.run_program(cfg['program'], inputs, self.B)
        return self._frozen[cidx]

    def rec_direct(self, cidx):
        """Record-time reference: the program stepped directly on the raw
        recording inputs, each register encoded right after its instruction."""
        if cidx in self._rec_direct:
            return self._rec_direct[cidx]
        cfg = self.run['clients'][cidx]
        prog = cfg['program']
        rec = cfg['rec']
        regs = [make_value(self.al, rec['kind'], v, rec.get('dtype')) for v in rec['vals']]
        out = []
        failed = None
        for j, ins in enumerate(prog['instrs']):
            try:
                r = programs.exec_instr(ins, regs, self.B)
            except Exception as e:
                failed = (j, type(e).__name__)
                break
            regs.append(r)
            item = {'i': j, 'v': enc(unwrap(r, self.F))}
            if ins['op'] == 'setitem':
                item['buf'] = enc(regs[ins['a'][0]])
            out.append(item)
        self._rec_direct[cidx] = (out, failed)
        return out, failed

    def admissible(self, prog, x, multi=False):
        try:
            with numpy.errstate(all='ignore'):
                ins = [numpy.array(v, dtype=float) for v in x] if multi else [numpy.array(x, dtype=float)]
                regs = programs.run_program(prog, ins, self.B)
        except Exception:
            return False
        # eigenvectors / singular vectors are not differentiable where eigenvalues coincide
        n0 = len(prog['n_in'])
        for j, ins in enumerate(prog['instrs']):
            if ins['op'] == 'lin1' and ins.get('f') in ('eigh', 'svd'):
                A = numpy.asarray(regs[ins['a'][0]], dtype=float)
                sv = numpy.sort(numpy.linalg.svd(A, compute_uv=False))
                if sv.size > 1 and numpy.min(numpy.diff(sv)) < 1e-3 * max(1.0, float(sv[-1])):
                    return False
        for r in regs:
            vals = r if isinstance(r, (list, tuple)) else [r]
            for v in vals:
                if v is None:
                    continue
                a = numpy.asarray(v)
                if a.dtype == object:
                    continue
                if not numpy.all(numpy.isfinite(a)) or numpy.max(numpy.abs(a), initial=0.0) > ADMISSIBLE_MAX:
                    return False
        return True

    # ---- truth model ---------------------------------------------------------
    def forward_JH(self, prog, x, need_H):
        al = self.al
        N = len(x)
        x = numpy.array(x, dtype=float)
        y = self.direct(prog, [al.UTPM.init_jacobian(x)])[0]
        J = numpy.asarray(al.UTPM.extract_jacobian(y), dtype=float)
        scalar = y.ndim == 0
        J = J.reshape((1, N)) if scalar else J.reshape((-1, N))
        H = None
        if need_H:
            yh = self.direct(prog, [al.UTPM.init_hessian(x)])[0]
            if scalar:
                H = numpy.asarray(al.UTPM.extract_hessian(N, yh)).reshape((1, N, N))
            else:
                H = numpy.array([al.UTPM.extract_hessian(N, yh[m]) for m in range(yh.shape[0])])
        return J, H, scalar

    def forward_jacobian_along_curve(self, prog, data):
        """Taylor coefficients of every Jacobian entry along x(t), from forward mode alone.
        With g(t, s) = f(x(t) + s e_j), the coefficient of t^d in J_ij(x(t)) is g_{d,1}.  The
        univariate h_k(tau) = f(x(tau) + k tau e_j) has tau^(d+1)-coefficient sum_b k^b g_{d+1-b,b},
        a polynomial of degree <= d+1 in k whose linear coefficient is g_{d,1}; propagate D+1
        values of k with degree D+1 and interpolate (Vandermonde system solved in rationals).
        The propagated coefficients can be many orders of magnitude larger than the result
        (sin of a large argument), so the model carries its own error estimate: it is evaluated
        on two node sets and the disagreement between the two bounds its rounding error."""
        D = data.shape[0]
        a = self._curve_model(prog, data, list(range(D + 1)))
        nodes_b = [0] + [((-1) ** i) * ((i + 1) // 2) for i in range(1, D + 1)]      # 0, -1, 1, -2, 2, ...
        b = self._curve_model(prog, data, nodes_b)
        self._model_err = float(numpy.max(numpy.abs(a - b)))
        return a

    def _curve_model(self, prog, data, ks):
        from fractions import Fraction
        al = self.al
        D, P, N = data.shape
        n = D + 1
        V = [[Fraction(k) ** b for b in range(n)] for k in ks]
        A = [row[:] + [Fraction(int(i == r)) for i in range(n)] for r, row in enumerate(V)]
        for c in range(n):
            piv = next(r for r in range(c, n) if A[r][c] != 0)
            A[c], A[piv] = A[piv], A[c]
            pv = A[c][c]
            A[c] = [v / pv for v in A[c]]
            for r in range(n):
                if r != c and A[r][c] != 0:
                    f = A[r][c]
                    A[r] = [x - f * y for x, y in zip(A[r], A[c])]
        Vinv = numpy.array([[float(v) for v in row[n:]] for row in A])      # coefficients = Vinv . values
        out = None
        for p in range(P):
            for j in range(N):
                ys = []
                for k in ks:
                    c = numpy.zeros((D + 2, 1, N))
                    c[:D, 0, :] = data[:, p, :]
                    c[1, 0, j] += k
                    y = self.direct(prog, [al.UTPM(c)])[0]
                    ys.append(numpy.asarray(y.data[:, 0]).reshape(D + 2, -1))
                ys = numpy.array(ys)                                   # (k, coefficient, M)
                M = ys.shape[2]
                if out is None:
                    out = numpy.zeros((D, P, M, N))
                for d in range(D):
                    coeff = Vinv.dot(ys[:, d + 1, :])                  # polynomial coefficients in k
                    out[d, p, :, j] = coeff[1]
        return out

    def truth(self, prog, step):
        """Expected driver result from forward mode / the exact model."""
        name = step['name']
        out = {}
        if name == 'gradient_list':
            # forward mode, one independent at a time; the others ride along as constants
            al = self.al
            xs = [numpy.array(v, dtype=float) for v in step['x']]
            grads = []
            try:
                for j, xj in enumerate(xs):
                    seeds = []
                    for i, xi in enumerate(xs):
                        if i == j:
                            seeds.append(al.UTPM.init_jacobian(xi))
                        else:
                            d = numpy.zeros((2, len(xj), len(xi)))
                            d[0, :, :] = xi
                            seeds.append(al.UTPM(d))
                    y = self.direct(prog, seeds)[0]
                    grads.append(numpy.asarray(al.UTPM.extract_jacobian(y), dtype=float).reshape(len(xj)))
                out['forward'] = enc(grads)
            except Exception as e:
                # forward mode itself fails on this program: no truth to compare with
                self.notes.append('forward truth (list) raised: %s' % type(e).__name__)
            return out
        scalar = len(prog['out_shapes'][0]) == 0
        if name == 'jacobian_utpm':
            data = numpy.array(step['x'], dtype=float)

            def as_utpm(a):
                a = numpy.ascontiguousarray(a)
                return {'k': 'utpm', 'sh': list(a.shape), 'dt': a.dtype.str, 'hx': a.tobytes().hex()}
            try:
                fw = self.forward_jacobian_along_curve(prog, data)
                if self._model_err <= 1e-6 * max(1.0, float(numpy.max(numpy.abs(fw)))):
                    out['forward'] = as_utpm(fw)
                    self._abs_tol = 1e-8 + 50.0 * self._model_err
                else:
                    # the interpolation is too ill-conditioned at this point to serve as truth
                    self.count('truth_skipped:curve_model_inaccurate')
            except Exception as e:
                self.notes.append('forward truth (curve) raised: %s' % type(e).__name__)
            if prog['exact']:
                try:
                    out['exact'] = as_utpm(exact.jacobian_along_curve(prog, data))
                except Exception as e:
                    # the exact model cannot run this program (counted, never silent)
                    self.count('note:exact_model_error:%s' % type(e).__name__)
            return out
        x = numpy.array(step['x'], dtype=float)
        need_H = name in ('hessian', 'hess_vec', 'vec_hess', 'vec_hess_vec')
        models = {}
        try:
            J, H, _ = self.forward_JH(prog, x, need_H)
            models['forward'] = (J, H)
        except Exception as e:
            self.notes.append('forward truth raised: %s' % type(e).__name__)
        if prog['exact']:
            try:
                _, J, H = exact.point_derivatives(prog, x)
                models['exact'] = (J, H)
            except Exception as e:
                self.count('note:exact_model_error:%s' % type(e).__name__)
        v = numpy.array(step['v'], dtype=float) if step.get('v') is not None else None
        w = numpy.array(step['w'], dtype=float) if step.get('w') is not None else None
        for key, (J, H) in models.items():
            if name == 'gradient':
                r = J[0]
                r = [r] if step.get('xlist') else r
            elif name == 'jacobian':
                r = J[0] if scalar else J
            elif name == 'jac_vec':
                r = J.dot(v)
                r = r[0] if scalar else r
            elif name == 'vec_jac':
                r = w.dot(J)
            elif name == 'hessian':
                r = H[0]
            elif name == 'hess_vec':
                r = H[0].dot(v)
            elif name == 'vec_hess':
                r = numpy.tensordot(w, H, axes=(0, 0))
            elif name == 'vec_hess_vec':
                r = numpy.tensordot(w, H, axes=(0, 0)).dot(v)
            out[key] = enc(r)
        return out

    def label(self, cidx, got, call):
        """Diagnostic only (never decides a verdict): repeat the failing call on a fresh graph
        recorded with the *client's* recording configuration.  If that reproduces the wrong
        outcome the cause is what was captured while recording, otherwise the call history."""
        cfg = self.run['clients'][cidx]
        rec = cfg['rec']

        def thunk():
            cg = self.record(cfg['program'], [make_value(self.al, rec['kind'], v, rec.get('dtype')) for v in rec['vals']])
            return call(cg)
        try:
            again = self.outcome(thunk)
        except BaseException:
            return 'unknown'
        return 'recording state' if same_outcome(again, got) else 'call history'

    # ---- per-event judgement -----------------------------------------------
    def judge(self):
        run = self.run
        props = self.props
        steps = {s['seq']: s for s in run['plan']}
        nC = len(run['clients'])
        fwd_ok = [False] * nC
        fwd_args = [None] * nC
        for ev in self.slog['events']:
            if self.timed_out:
                # a reference computation itself did not return; stop judging
                self.count('aborted:reference_timeout')
                break
            step = steps[ev['seq']]
            c = ev['c']
            cfg = run['clients'][c]
            prog = cfg['program']
            op = ev['op']
            if 'C05' in props:
                for msg in ev.get('inv', []):
                    self.verdict('C05', msg.split(':')[0], ev, False, detail=msg)
                self.count('checked:C05:invariants')
            r2_state = op == 'rev' and (not fwd_ok[c] or fwd_args[c] is None)
            if 'C06' in props and not r2_state:
                # (a bare sweep over a forward state that was never completed is garbage in,
                # garbage out -- R2 -- and may scribble anywhere)
                for u in ev.get('unstable', []):
                    self.verdict('C06', 'O6.stable', ev, False,
                                 detail='the result that the call at step %d (client %d) handed out changed '
                                        'during this %s step of client %d' % (u['result_of_seq'], u['client'], op, c))
                self.count('checked:C06:O6.stable')
            if 'C05' in props and op == 'fwd':
                # O5.6: what an earlier replay returned is still what the program yields for
                # that replay's inputs after later replays
                for u in ev.get('unstable', []):
                    if u.get('op') == 'fwd':
                        self.verdict('C05', 'O5.6', ev, False,
                                     detail='the values returned by the replay at step %d (client %d) changed '
                                            'during this replay of client %d' % (u['result_of_seq'], u['client'], c))
                self.count('checked:C05:O5.6')
            if op == 'rec':
                if 'C05' in props:
                    self.judge_rec(ev, c)
                continue
            if op == 'seal':
                if 'C05' in props:
                    self.judge_seal(ev, c, prog, cfg)
                continue
            if op not in ('fwd', 'rev', 'drv'):
                continue
            out = ev['out']
            fired = ev.get('fired', False)
            ok = out[0] == 'ok'
            self.count('calls:%s' % op)
            if fired:
                self.count('faults_fired:%s' % step['fault']['kind'])
            if op == 'fwd':
                if fired or step.get('wrong_len'):
                    self.count('unchecked:R1')
                    fwd_ok[c] = False
                else:
                    self.judge_fwd(ev, step, prog)
                    fwd_ok[c] = ok
                if ok and not step.get('wrong_len'):
                    fwd_args[c] = ev.get('fwd_args')
            elif op == 'drv':
                if fired:
                    self.count('unchecked:R1')
                    fwd_ok[c] = False
                else:
                    self.judge_drv(ev, step, prog)
                    fwd_ok[c] = ok
                if ok:
                    fwd_args[c] = ev.get('fwd_args')
            else:
                # A reverse sweep that does not complete leaves the forward state valid (the
                # library re-initialises adjoints at the start of every sweep and puts buffers
                # back whether or not the sweep finished), so later sweeps stay checked.  Only a
                # *forward* evaluation that did not complete invalidates them (R2).
                if fired or step.get('bad'):
                    self.count('unchecked:R1')
                elif not fwd_ok[c] or fwd_args[c] is None:
                    self.count('unchecked:R2')
                else:
                    self.judge_rev(ev, step, prog, fwd_args[c])
        if self.slog.get('rec_failed') is not None and 'C05' in props:
            ev = self.slog['events'][-1]
            _, failed = self.rec_direct(ev['c'])
            if failed is None:
                self.verdict('C05', 'O5.1', ev, False,
                             detail='recording raised (%s) although the program runs on the unwrapped operands' %
                             ev.get('rec_exc'))
            else:
                self.count('discarded:inadmissible_recording')
        self.run_deferred()

    def judge_rec(self, ev, c):
        want, failed = self.rec_direct(c)
        for item in ev.get('rec_vals', []):
            i = item['i']
            if i >= len(want):
                break
            w = want[i]
            if item['v'] != w['v']:
                self.verdict('C05', 'O5.1', ev, False, instr=i,
                             detail='record-time value of instruction %d differs: got %s want %s' % (
                                 i, codec.short(item['v']), codec.short(w['v'])))
                return
            if 'buf' in w and item.get('buf') != w['buf']:
                self.verdict('C05', 'O5.1', ev, False, instr=i,
                             detail='buffer after write %d differs: got %s want %s' % (
                                 i, codec.short(item.get('buf')), codec.short(w['buf'])))
                return
        self.verdict('C05', 'O5.1', ev, True)

    def judge_seal(self, ev, c, prog, cfg):
        rec = cfg['rec']
        _, failed = self.rec_direct(c)
        if failed is not None:
            return
        inputs = [make_value(self.al, rec['kind'], v, rec.get('dtype')) for v in rec['vals']]
        cg = self.record(prog, inputs)
        want = structure(cg, self.F)
        got = ev['structure']
        ok = got == want
        detail = None
        if not ok:
            detail = 'interleaved recording has %d nodes, solo recording %d' % (len(got), len(want))
            for i, (g, w) in enumerate(zip(got, want)):
                if g != w:
                    detail += '; first difference at node %d: %s vs %s' % (i, g[0], w[0])
                    break
        self.verdict('C05', 'O5.4', ev, ok, detail=detail)

    def judge_fwd(self, ev, step, prog):
        args = ev['args']
        got = ev['out']
        es = step.get('errstate', False)
        if 'C05' in self.props:
            def cont5(want):
                self.verdict('C05', 'O5.2', ev, same_outcome(got, want), got=brief(got), want=brief(want))
            self.defer(lambda: enc(self.direct(prog, [dec(a, self.al) for a in args], ev['c'])), es, cont5)
        if 'C06' in self.props:
            def call(cg):
                xs = [dec(a, self.al) for a in args]
                if step['api'] == 'function':
                    return enc(cg.function(xs))
                cg.pushforward(xs)
                return enc([f.x for f in cg.dependentFunctionList])

            def pristine():
                return call(self.record(prog, [dec(a, self.al) for a in args]))

            def cont6(want):
                ok = same_outcome(got, want)
                lab = None if ok else self.label(ev['c'], got, call)
                self.verdict('C06', 'O6.fwd', ev, ok, got=brief(got), want=brief(want), label=lab)
                en = ev.get('enum')
                if en:
                    # the same evaluation, preceded by a forward evaluation (at other inputs) that was
                    # interrupted at each source line of its kernels in turn
                    self.count('enumerated_interrupt_points', en['lines'])
                    for o in en['outcomes']:
                        good = same_outcome(o['out'], want)
                        self.verdict('C06', 'O6.enum', ev, good, got=brief(o['out']), want=brief(want),
                                     detail=None if good else (
                                         'after a forward evaluation interrupted at %s (and at %d other enumerated '
                                         'points with the same effect) this evaluation returned %s instead of %s' % (
                                             o['first_at'], o['count'] - 1, brief(o['out']), brief(want))))
            self.defer(pristine, es, cont6)

    def judge_rev(self, ev, step, prog, fargs):
        if 'C06' not in self.props:
            return
        got = ev['out']

        def call(cg):
            cg.pushforward([dec(a, self.al) for a in fargs])
            cg.pullback([dec(a, self.al) for a in ev['args']])
            return enc([f.xbar for f in cg.independentFunctionList])

        def pristine():
            return call(self.record(prog, [dec(a, self.al) for a in fargs]))

        def cont(want):
            ok = same_outcome(got, want)
            lab = None if ok else self.label(ev['c'], got, call)
            self.verdict('C06', 'O6.rev', ev, ok, got=brief(got), want=brief(want), label=lab)
            # fault enumeration: the same sweep, preceded by a sweep that was interrupted at
            # each source line of its kernels in turn, must return the same adjoints
            en = ev.get('enum')
            if en:
                self.count('enumerated_interrupt_points', en['lines'])
                for o in en['outcomes']:
                    good = same_outcome(o['out'], want)
                    self.verdict('C06', 'O6.enum', ev, good, got=brief(o['out']), want=brief(want),
                                 detail=None if good else (
                                     'after a sweep interrupted at %s (and at %d other enumerated points with the '
                                     'same effect) the next sweep returned %s instead of %s' % (
                                         o['first_at'], o['count'] - 1, brief(o['out']), brief(want))))
        self.defer(pristine, False, cont)

    def judge_drv(self, ev, step, prog):
        got = ev['out']
        al = self.al
        if 'C04' in self.props or 'C06' in self.props:
            def call(cg):
                return driver_thunk(al, cg, step)()[0]

            def pristine():
                if step['name'] == 'gradient_list':
                    return call(self.record(prog, [numpy.array(v, dtype=float) for v in step['x']]))
                x = numpy.array(step['x'], dtype=float)
                x0 = al.UTPM(x) if step['name'] == 'jacobian_utpm' else x
                return call(self.record(prog, [x0]))

            def cont(want):
                ok = same_outcome(got, want)
                lab = None if ok else self.label(ev['c'], got, call)
                if 'C06' in self.props:
                    self.verdict('C06', 'O6.drv', ev, ok, got=brief(got), want=brief(want),
                                 driver=step['name'], label=lab)
                if 'C04' in self.props:
                    self.verdict('C04', 'O4a', ev, ok, got=brief(got), want=brief(want),
                                 driver=step['name'], label=lab)
            self.defer(pristine, False, cont)
        if 'C04' in self.props and (prog['truth'] or prog['family'] in programs.PROBES):
            self.judge_truth(ev, step, prog, got)

    def judge_truth(self, ev, step, prog, got):
        name = step['name']
        self._abs_tol = 0.0
        if name == 'jacobian_utpm':
            base = numpy.array(step['x'], dtype=float)[0, 0]
        else:
            base = step['x']
        if not self.admissible(prog, base, multi=(name == 'gradient_list')):
            self.count('truth_skipped:inadmissible')
            return
        models = self.truth(prog, step)
        if not models:
            self.count('truth_skipped:no_model')
            return
        if 'exact' in models and 'forward' in models and not codec.close(models['forward'], models['exact'], TRUTH_RTOL):
            self.count('note:forward_vs_exact_disagree')
        key = 'exact' if 'exact' in models else 'forward'
        want = models[key]
        if not _finite(want):
            # the reference itself is not a number here (e.g. 0**2.5 at second order): there is
            # no truth to compare with at this point
            self.count('truth_skipped:model_not_finite')
            return
        oracle = 'O4c' if name == 'jacobian_utpm' else 'O4b'
        if got[0] != 'ok':
            self.verdict('C04', oracle, ev, False, got=brief(got), want=codec.short(want), driver=name, model=key,
                         detail='driver raised on a program of the truth catalogue')
            return
        ok = codec.close(got[1], want, TRUTH_RTOL, self._abs_tol if key == 'forward' else 0.0)
        self.verdict('C04', oracle, ev, ok, got=brief(got), want=codec.short(want), driver=name, model=key)
        self.count('truth_model:%s' % key)


def same_outcome(a, b):
    """Exceptions are compared as 'raised' only: messages and classes carry
    tracebacks and wrapper types."""
    if a[0] != b[0]:
        return False
    return a[0] == 'exc' or a[1] == b[1]


def _finite(e):
    if e is None:
        return True
    if e['k'] == 'seq':
        return all(_finite(x) for x in e['v'])
    if e['k'] in ('nd', 'utpm'):
        return bool(numpy.all(numpy.isfinite(codec.to_array(e))))
    return True


def brief(out):
    if out[0] != 'ok':
        return 'raised ' + str(out[1])
    return codec.short(out[1])


def run_R(run, slog, props):
    r = Refs(run, slog, props)
    r.judge()
    return {'verdicts': r.verdicts, 'stats': r.stats, 'notes': r.notes}
