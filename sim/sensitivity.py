#!/venv/bin/python
"""Sensitivity self-check: apply a patch to a scratch worktree of the
repository (never to /repo itself), run a property's check against it and
report whether the change was caught.  The worktree is removed afterwards.

  sensitivity.py --patch seeded/<id>/patch.diff --property C06 [--runs N]
  sensitivity.py --all            # every /verif/seeded/*/ and sim/mutants/*.diff
"""
import argparse
import json
import os
import shutil
import subprocess
import sys
import tempfile
import time

HERE = os.path.dirname(os.path.abspath(__file__))
VERIF = os.path.dirname(HERE)
REPO = os.environ.get('VERIF_REPO', '/repo')


def run_one(patch, prop, runs, keep_log=False, tier='quick'):
    wt = tempfile.mkdtemp(prefix='dsim-mut-', dir='/tmp')
    os.rmdir(wt)
    t0 = time.time()
    try:
        subprocess.run(['git', '-C', REPO, 'worktree', 'add', '-q', '--detach', wt, 'HEAD'], check=True)
        # uncommitted changes of the tree under test are part of "the current tree"
        diff = subprocess.run(['git', '-C', REPO, 'diff', 'HEAD'], capture_output=True, text=True).stdout
        if diff.strip():
            subprocess.run(['git', '-C', wt, 'apply'], input=diff, text=True, check=True)
        ap = subprocess.run(['git', '-C', wt, 'apply', os.path.abspath(patch)], capture_output=True, text=True)
        if ap.returncode != 0:
            return {'patch': patch, 'property': prop, 'exit': 3, 'violations': 0, 'groups': [], 'first': None,
                    'kept_replay': None, 'wall_s': 0.0, 'tail': None,
                    'stderr': 'patch does not apply to the current tree: ' + ap.stderr[-300:]}
        env = dict(os.environ)
        env['VERIF_REPO'] = wt
        env.pop('VERIF_REEXEC', None)
        ev = os.path.join(wt, '.evidence.json')
        cmd = [sys.executable, os.path.join(HERE, 'check.py'), '--property', prop, '--tier', tier,
               '--no-selftest', '--no-regressions', '--evidence', ev]
        if runs:
            cmd += ['--runs', str(runs)]
        p = subprocess.run(cmd, env=env, capture_output=True, text=True, cwd=VERIF)
        out = p.stdout
        viol = [l for l in out.splitlines() if l.startswith('VIOLATION')]
        groups = [l for l in out.splitlines() if l.startswith('violation-group')]
        first = viol[0][:400] if viol else None
        # keep one minimised replay next to the patch for the record
        kept = None
        for l in viol:
            if 'minimised in' in l:
                path = l.split('replay=')[1].split()[0]
                if os.path.exists(path):
                    kept = os.path.join(os.path.dirname(os.path.abspath(patch)), 'caught_%s.json' % prop)
                    shutil.copy(path, kept)
                    break
        return {'patch': patch, 'property': prop, 'exit': p.returncode, 'violations': len(viol),
                'groups': groups[:12], 'first': first, 'kept_replay': kept, 'wall_s': round(time.time() - t0, 1),
                'tail': out.splitlines()[-1:] if keep_log or p.returncode not in (0, 1) else None,
                'stderr': p.stderr[-1500:] if p.returncode not in (0, 1) else None}
    finally:
        subprocess.run(['git', '-C', REPO, 'worktree', 'remove', '--force', wt], capture_output=True)
        subprocess.run(['git', '-C', REPO, 'worktree', 'prune'], capture_output=True)
        shutil.rmtree(wt, ignore_errors=True)


def main():
    ap = argparse.ArgumentParser()
    ap.add_argument('--patch')
    ap.add_argument('--property')
    ap.add_argument('--runs', type=int)
    ap.add_argument('--tier', default='quick')
    ap.add_argument('--all', action='store_true')
    args = ap.parse_args()
    jobs = []
    if args.all:
        sd = os.path.join(VERIF, 'seeded')
        for name in sorted(os.listdir(sd)) if os.path.isdir(sd) else []:
            meta = os.path.join(sd, name, 'meta.json')
            patch = os.path.join(sd, name, 'patch.diff')
            if os.path.exists(meta) and os.path.exists(patch):
                with open(meta) as f:
                    m = json.load(f)
                props = m.get('check_with') or [m['property']]
                for p in props:
                    jobs.append((patch, p))
        md = os.path.join(HERE, 'mutants')
        for name in sorted(os.listdir(md)) if os.path.isdir(md) else []:
            if name.endswith('.diff'):
                prop = name.split('_')[0]
                jobs.append((os.path.join(md, name), prop))
    else:
        jobs.append((args.patch, args.property))
    missed = 0
    for patch, prop in jobs:
        r = run_one(patch, prop, args.runs, tier=args.tier)
        status = 'CAUGHT' if r['exit'] == 1 else ('MISSED' if r['exit'] == 0 else 'HARNESS-ERROR')
        if r['exit'] != 1:
            missed += 1
        print('%s %s property=%s violations=%d wall=%.0fs %s' % (status, os.path.relpath(patch, VERIF), prop,
                                                                 r['violations'], r['wall_s'],
                                                                 (r['first'] or '')[:260]))
        for g in r['groups']:
            print('    ' + g)
        if r['stderr']:
            print(r['stderr'])
        sys.stdout.flush()
    return 1 if missed else 0


if __name__ == '__main__':
    sys.exit(main())
